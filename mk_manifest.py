#!/usr/bin/env python3
"""Regenerates MANIFEST.json (kept as a script so the claimed/not-applicable lists stay in one place)."""
import json, os, subprocess

NA = {
"C01":"pure function text->circuit->text of one program; no schedule, state, clock, fault or history in the statement, so deterministic simulation has nothing to control",
"C02":"pure acceptance/tree function of one character string; only input generation would vary (C16's fault sweep judges failure discipline only, not acceptance or the reported tree)",
"C04":"pure tree rewrite of one program; quantifier is programs only",
"C05":"pure function of (program, override dictionary); no state survives a call",
"C06":"pure index arithmetic compared across consumers on one input (the emulator's share is exercised under C03, not claimed here)",
"C07":"the gate memo lives and dies inside one build() call; pure function of the text",
"C12":"pure accept/reject function of one program",
"C13":"pure set computation / accept-reject of one program (its branch-order clause is exercised by C03's written-order schedule)",
"C14":"pure accept/reject of (program, overrides, gate set)",
"C17":"three pure front ends compared on one program; a fresh Stack per call, nothing survives",
"C18":"pure function of (gate set, argument list)",
"C19":"the unit-time model is lock-step: exactly one schedule per program, nothing for a scheduler to choose",
"C20":"__eq__ is a pure binary function of two values",
}
E2_NOTE_OLD = ("Trusted base: reference Jaqal machine R2 (task-per-branch, seeded scheduler, tensor-contraction state update), resolver R1, meaning extractor X, "
           "shared gate matrices. Bounds: n<=4 qubits, <=25 generated statements, nesting<=5, loop counts<=3; brackets whose prepare and measure do not share "
           "their chain of enclosing loops are excluded (statement ambiguous there). Sampling over seeds, not enumeration.")
E2_NOTE = ("Trusted base: reference Jaqal machine R2 (task-per-branch, seeded scheduler, tensor-contraction state update), resolver R1 (also the validity filter of the generator), "
           "meaning extractor X, gate matrices shared between emulator and reference (four conventions switched between runs). Bounds: registers up to 6 qubits (8-10 in 5 % of C08/C15 runs, with at most six statements), <=25 generated statements, nesting<=5, "
           "loop counts<=3 (quick) / one subcircuit visited 70 000 times (thorough only); brackets whose prepare and measure do not share their chain of enclosing loops are excluded "
           "(statement ambiguous there). Runs execute in chunks inside one forked process; state the library keeps between calls is reported through chain replay. Sampling over seeds, not enumeration.")
E1_NOTE = ("Trusted base: identity-aware deep snapshot R4, meaning extractor X, twin/other-order executions and (C11, C16) the last run of every chunk executed alone in a new process as reference. Bounds: histories of 4-20 operations, pool<=6, "
           "programs<=25 statements. Pre-emptive threads are not simulated (no property mentions them); interleaving is explored as operation order, as nesting at the two re-entrancy points "
           "(gate matrix functions, pulse-module top level) and as cancellation at an arbitrary line event. Sampling over seeds, not enumeration; C16's two per-text sweeps (truncation/flip at every offset; every pair of argument kinds for one call statement) are exhaustive for the swept text.")
CHECKS = {
 "C03": ("E2", "seeded scheduler of parallel branches + simulator-owned sampler vs reference Jaqal machine (deterministic simulation)",
   "Seeded search over programs x branch interleavings (reference machine: two gate-granularity schedules; real emulator: permuted written branch order) x sampler histories x emulate-again-on-the-same-object; state vectors and probabilities compared with an independent tensor-contraction reference to 1e-9. Exploration is the right level: the statement quantifies over all programs and interleavings, which can only be sampled.", E2_NOTE),
 "C08": ("E2", "deterministic step clock (termination) + recorded sampler / hardware-stub histories checked against the reference machine's visit sequence",
   "Every run executes under a line-event budget (non-termination is a replayable verdict), checks exactly-one sampler call per visit with the visited subcircuit's distribution, readout order/attribution/frequencies, and the same for hardware output lists of matching length produced by the stub. Loop counts 0..3, literal, let-valued and overridden.", E2_NOTE),
 "C09": ("E2", "two executions fed the identical recorded random stream and the identical hardware history (deterministic simulation), plus structural comparison through the meaning extractor",
   "Spelling A (subcircuit blocks) and spelling B (prepare_all..measure_all written out) are run under the identical sampler tape and hardware list and must give identical results; expand_subcircuits(A) is compared with B through the independent extractor (no subcircuit left, header unchanged, bounding definitions native or caller-supplied).", E2_NOTE),
 "C15": ("E2", "recorded readout streams from the sampler seam and the hardware stub (int/str/mixed/numpy-scalar/bool encodings) checked against the result views",
   "All result views of every run are checked for normalisation, key order, little-endian correspondence and counts; the hardware stub's history is delivered in up to five encodings (int, bit string, mixed, numpy integer scalars, bool for one qubit) that must be interpreted identically; the support-adversarial sampler makes rare and non-palindromic outcomes common.", E2_NOTE),
 "C10": ("E1", "seeded operation-history search (orders and repetitions of passes) against the meaning extractor as reference model",
   "Histories of passes over a shared starting circuit under arbitrary override dictionaries (also integers given as floats): sequences with the same set of pass kinds must agree in meaning, each pass must be idempotent in three views, parser flags must equal explicit passes, every intermediate circuit must regenerate and re-parse to the same meaning.", E1_NOTE),
 "C11": ("E1", "session simulator: operation histories on shared objects with identity-aware snapshots, twin executions on fresh copies and in a process that ran nothing before, cancellation at step k, re-entrant nested calls",
   "After every operation of a seeded history (including failed, interrupted and nested operations) the deep identity-aware snapshot of every live circuit, result and the gate table must be unchanged, and every operation's outcome must equal that of the same operation on a freshly parsed copy.", E1_NOTE),
 "C16": ("E1", "fault injection on the source store and pulse-module store, cancellation at step k, histories compared between two process lifetimes and with a process that ran nothing before (deterministic simulation), exhaustive truncation/flip and argument-kind sweeps per text, depth faults (nesting up to 520)",
   "Corrupted, truncated and torn texts, missing/broken pulse modules and interrupts are injected into histories of parse/run calls; every outcome must be a value, JaqalError (JaqalParseError with an in-text position) or ImportError for a missing module, within the step budget, and every call's outcome must be identical in a process lifetime with a different history.", E1_NOTE),
}
def main(claimed):
    base = "cd /repo && /venv/bin/python -m pytest -ra -q -p no:cacheprovider --timeout=900 --continue-on-collection-errors"
    m = {"version":1,
     "setup_cmd":"./vcheck setup",
     "hooks":{"guard":"JAQALPAQ_VERIF","enable":"no source hooks: every seam is a module global, an argument or interpreter machinery rebound by the harness (checks import jaqalpaq from ${VERIF_REPO_SRC:-/repo/src})","baseline_off_cmd":base,"source_commits":[],"add_only":True},
     "engines":[
       {"name":"E2","path":"sim/engine_exec.py","serves_properties":[c for c in claimed if CHECKS[c][0]=="E2"],"kind_free_text":"execution simulator: reference Jaqal machine with seeded branch scheduler next to the real parser/passes/emulator under simulator-owned sampler, step clock and hardware stub"},
       {"name":"E1","path":"sim/engine_session.py","serves_properties":[c for c in claimed if CHECKS[c][0]=="E1"],"kind_free_text":"session simulator: seeded histories of library calls on shared objects with text/pulse-module faults, cancellation, nested re-entrant calls and a second process lifetime as reference"}],
     "checks":[],
     "notes":"Technique family: deterministic simulation with fault injection. See DESIGN.md. Known findings: known_findings.json.",
     "not_applicable":[{"property_id":k,"reason":v} for k,v in NA.items()]}
    for c in claimed:
        eng, tech, text, note = CHECKS[c]
        m["checks"].append({"property_id":c,"quick_cmd":"./vcheck %s --tier quick"%c,"thorough_cmd":"./vcheck %s --tier thorough"%c,
          "evidence_file":"evidence/%s.json"%c,"replay_cmd_template":"./vcheck %s --replay {path}"%c,"engine":eng,
          "level_claimed":{"category":"exploration","text":text,"design_ref":"DESIGN.md section 5 (%s)"%c},"level_note":note,"technique":tech})
    for c in CHECKS:
        if c not in claimed:
            m["not_applicable"].append({"property_id":c,"reason":"check under construction in this session (engine %s); not yet claimed"%CHECKS[c][0]})
    json.dump(m, open(os.path.join(os.path.dirname(os.path.abspath(__file__)),"MANIFEST.json"),"w"), indent=1)
if __name__ == "__main__":
    import sys
    main(sys.argv[1:] or sorted(CHECKS))
