"""Batch runner: pristine zygote, one fork per run, pipes, aggregation.

Every run is one os.fork() of a process that has imported jaqalpaq, numpy and the
harness but has never parsed or executed anything, so a run's outcome cannot depend on
which runs came before it.  The child writes one JSON record to a pipe and _exit()s.
"""
import gc
import json
import os
import select
import signal
import sys
import time
import traceback

from .prng import H

CHILD_WALL_S = 120.0


class HarnessError(Exception):
    pass


def preload():
    """Imports done once in the zygote (never parses, never executes)."""
    from . import seams

    seams.install_repo()
    import numpy  # noqa
    import sly  # noqa
    import jaqalpaq.parser  # noqa
    import jaqalpaq.run  # noqa
    import jaqalpaq.core.result  # noqa
    import jaqalpaq.core.algorithm  # noqa
    import jaqalpaq.core.algorithm.fill_in_map  # noqa
    import jaqalpaq.core.algorithm.unit_timing  # noqa
    import jaqalpaq.emulator.unitary  # noqa
    import jaqalpaq.generator  # noqa
    from . import engine_exec, gateset, gen, progast, refmachine, extract  # noqa

    return "importlib.util" not in sys.modules


def _read_all(fd, deadline):
    chunks = []
    while True:
        left = deadline - time.monotonic()
        if left <= 0:
            return None
        r, _, _ = select.select([fd], [], [], min(left, 5.0))
        if not r:
            continue
        b = os.read(fd, 1 << 16)
        if not b:
            break
        chunks.append(b)
    return b"".join(chunks)


def fork_call(fn, wall_s=CHILD_WALL_S):
    """Run fn() in a forked child; -> its JSON-able return value.  A child that dies or
    exceeds the wall-clock limit is a harness error, never a verdict."""
    rfd, wfd = os.pipe()
    sys.stdout.flush()
    sys.stderr.flush()
    pid = os.fork()
    if pid == 0:
        code = 0
        try:
            os.close(rfd)
            gc.disable()
            try:
                out = {"ok": fn()}
            except BaseException as e:  # harness failure inside the child
                out = {"harness_error": "%s: %s" % (type(e).__name__, e), "tb": traceback.format_exc()[-3000:]}
            data = json.dumps(out).encode("utf8")
            off = 0
            while off < len(data):
                off += os.write(wfd, data[off : off + (1 << 16)])
        except BaseException:
            code = 3
        finally:
            os._exit(code)
    os.close(wfd)
    try:
        data = _read_all(rfd, time.monotonic() + wall_s)
    finally:
        os.close(rfd)
    if data is None:
        try:
            os.kill(pid, signal.SIGKILL)
        except ProcessLookupError:
            pass
        os.waitpid(pid, 0)
        raise HarnessError("child exceeded wall-clock limit of %.0fs" % wall_s)
    _, status = os.waitpid(pid, 0)
    if not data:
        raise HarnessError("child died without a record (status %r)" % (status,))
    out = json.loads(data.decode("utf8"))
    if "harness_error" in out:
        raise HarnessError(out["harness_error"] + "\n" + out.get("tb", ""))
    return out["ok"]


def run_seed_for(master_seed, engine, prop, i):
    return H(master_seed, engine, prop, i)


def _compact(rec, keep_plan):
    out = {k: rec.get(k) for k in ("violations", "probes", "digest", "steps", "ticks", "interleaving", "nontrivial", "hist", "state_digests", "faults")}
    out["plan"] = rec.get("plan")
    out["text"] = rec.get("text")
    out["log"] = rec.get("log")
    for k in ("twin_ref", "twin_waived"):
        if k in rec:
            out[k] = rec[k]
    return out


CHUNK = {"E2": 40, "E1": 12}


def _stopped(stop_path):
    return stop_path is not None and os.path.exists(stop_path)


def _worker(w, W, indices, engine, prop, master_seed, out_fd, n_samples, deadline, stop_path=None):
    """Worker loop: a pristine sub-zygote that forks one child per *chunk* of runs (fork
    and copy-on-write faults are serialised by this VM, so one fork per run would cap the
    machine at a few runs per second).  Inside a chunk the runs execute back to back; the
    first run of the chunk is executed once more at the end and must reproduce its digest
    (same seed -> same execution, whatever ran before)."""
    mod = engine_module(engine)
    indices = list(indices)
    K = CHUNK[engine]
    for c0 in range(0, len(indices), K):
        if (deadline is not None and time.monotonic() > deadline) or _stopped(stop_path):
            break
        chunk = indices[c0 : c0 + K]
        seeds = [run_seed_for(master_seed, engine, prop, i) for i in chunk]

        def many(chunk=chunk, seeds=seeds):
            out = []
            plans = []
            for i, seed in zip(chunk, seeds):
                if (deadline is not None and time.monotonic() > deadline + 30) or _stopped(stop_path):
                    break
                plan = mod.plan_run(seed, prop)
                plans.append(plan)
                rec = mod.execute(plan)
                out.append(_compact(rec, keep_plan=(i < n_samples)))
            if out:
                again = mod.execute(plans[0])
                out[0]["dup_digest"] = again["digest"]
            return out

        try:
            recs = fork_call(many, wall_s=45 + 4 * K)
            if hasattr(mod, "twin_many") and mod.needs_twin(prop):
                plans = [r.get("plan") for r in recs]

                def twin(seeds=seeds[: len(recs)]):
                    return mod.twin_many([mod.plan_run(sd, prop) for sd in seeds])

                twins = fork_call(twin, wall_s=45 + 4 * K)
                for r, t in zip(recs, twins):
                    mod.compare_twin(r, t)
            if len(recs) >= 2 and getattr(mod, "needs_pristine_reference", lambda p_: False)(prop):
                last_seed = seeds[len(recs) - 1]
                ref = fork_call(lambda: mod.pristine_reference(mod.plan_run(last_seed, prop)), wall_s=45 + 4 * K)
                mod.compare_pristine(recs[-1], ref)
            for r, i, seed in zip(recs, chunk, seeds):
                r["i"], r["seed"] = i, seed
            # the plan is needed for replay only when something was found
            for r in recs:
                if not r.get("violations") and r["i"] >= n_samples:
                    r.pop("plan", None)
                    r.pop("text", None)
                    r.pop("log", None)
        except HarnessError as e:
            recs = [{"i": i, "seed": seed, "harness_error": str(e)[:2000]} for i, seed in zip(chunk, seeds)]
        for rec in recs:
            data = (json.dumps(rec) + "\n").encode("utf8")
            off = 0
            while off < len(data):
                off += os.write(out_fd, data[off:])


def engine_module(engine):
    if engine == "E2":
        from . import engine_exec

        return engine_exec
    if engine == "E1":
        from . import engine_session

        return engine_session
    raise ValueError(engine)


def run_batch(engine, prop, master_seed, n_runs, workers, n_samples=3, wall_s=None, on_record=None, stop_after_violating_runs=None):
    """-> list of compact records (ordered by run index).  The batch stops early once
    stop_after_violating_runs runs carry a violation of this property (a broken tree fails
    in most runs, and non-termination verdicts are expensive)."""
    import tempfile

    stop_path = os.path.join(tempfile.gettempdir(), "jaqsim-stop-%d-%d" % (os.getpid(), int(time.time() * 1000)))
    violating = [0]
    gc.collect()
    gc.freeze()
    t0 = time.monotonic()
    deadline = None if wall_s is None else t0 + wall_s
    pipes = []
    pids = []
    for w in range(workers):
        rfd, wfd = os.pipe()
        sys.stdout.flush()
        sys.stderr.flush()
        pid = os.fork()
        if pid == 0:
            code = 0
            try:
                os.close(rfd)
                for r, _ in pipes:
                    os.close(r)
                _worker(w, workers, range(w, n_runs, workers), engine, prop, master_seed, wfd, n_samples, deadline, stop_path)
            except BaseException:
                traceback.print_exc()
                code = 3
            finally:
                os._exit(code)
        os.close(wfd)
        pipes.append((rfd, b""))
        pids.append(pid)
    records = {}
    bufs = {rfd: b"" for rfd, _ in pipes}
    open_fds = set(bufs)
    timed_out = False
    while open_fds:
        r, _, _ = select.select(list(open_fds), [], [], 1.0)
        for fd in r:
            b = os.read(fd, 1 << 16)
            if not b:
                open_fds.discard(fd)
                continue
            bufs[fd] += b
            while b"\n" in bufs[fd]:
                line, bufs[fd] = bufs[fd].split(b"\n", 1)
                rec = json.loads(line.decode("utf8"))
                records[rec["i"]] = rec
                if any(v.get("prop") == prop for v in rec.get("violations") or []):
                    violating[0] += 1
                    if stop_after_violating_runs and violating[0] >= stop_after_violating_runs and not os.path.exists(stop_path):
                        open(stop_path, "w").close()
                if on_record:
                    on_record(rec)
    for pid in pids:
        os.waitpid(pid, 0)
    stopped_early = os.path.exists(stop_path)
    if stopped_early:
        os.unlink(stop_path)
    timed_out = len(records) < n_runs and not stopped_early
    for fd in bufs:
        os.close(fd)
    gc.unfreeze()
    return [records[i] for i in sorted(records)], timed_out
