"""vcheck - command line of the deterministic-simulation checks (run by path).

  vcheck <PROP> [--tier quick|thorough] [--runs N] [--workers W]
  vcheck <PROP> --replay <file>
  vcheck setup
  vcheck selftest determinism [--n N]
  vcheck run-one <ENGINE> <PROP> <run_seed>        (prints the event-log digest)

Exit codes: 0 held on everything explored (KNOWN-FINDING lines possible); 1 at least one
unlisted violation (VIOLATION lines); 2 the harness itself failed.
"""
import json
import os
import subprocess
import sys
import time

HERE = os.path.dirname(os.path.realpath(__file__))
VERIF = os.path.dirname(HERE)
# run by path: replace the script directory by /verif so that `sim` is a package and no
# module of ours can shadow the standard library
sys.path[:] = [p for p in sys.path if os.path.realpath(p or ".") != HERE]
sys.path.insert(0, VERIF)
sys.dont_write_bytecode = True
# one BLAS thread per process: the batch is parallel over processes, and forking a
# process that owns a BLAS thread pool is slow and a source of scheduling noise
for _v in ("OPENBLAS_NUM_THREADS", "OMP_NUM_THREADS", "MKL_NUM_THREADS", "NUMEXPR_NUM_THREADS"):
    os.environ[_v] = "1"

from sim import runner, seams, findings, shrink  # noqa: E402
from sim.prng import H, hexdigest  # noqa: E402

ENGINE_OF = {"C03": "E2", "C08": "E2", "C09": "E2", "C15": "E2", "C10": "E1", "C11": "E1", "C16": "E1"}

TIERS = {
    # engine: tier: (runs, workers, wall seconds for the batch)
    "E2": {"quick": (2400, 8, 60), "thorough": (160000, 16, 900)},
    "E1": {"quick": (1200, 8, 90), "thorough": (60000, 16, 900)},
}

COMPONENTS = {
    "real": [
        "sly lexer and LALR tables",
        "jaqalpaq.parser (slyparse, parser)",
        "jaqalpaq.core (circuitbuilder, IR classes, all passes, walkers, visitor, result)",
        "jaqalpaq.generator",
        "jaqalpaq.emulator.unitary / backend",
        "jaqalpaq.run.run",
        "jaqalpaq._import",
        "numpy linear algebra inside the gate matrices",
    ],
    "stub": [
        "sampler (simulator-owned SimSampler in faithful/adversarial modes; real numpy.random.choice, seeded, in numpy mode)",
        "hardware peer (HardwareStub output lists)",
        "pulse-definition modules (synthetic gate set instead of qscout)",
        "source store (texts / files served by the simulator)",
    ],
    "not_run": ["jaqalpaq.ipc", "jaqalpaq.emulator.pygsti", "jaqalpaq._cli", "jaqalpaq.qsyntax", "transpilers"],
}


def say(*a):
    print(*a, flush=True)


def vsig(v):
    return (v["prop"], v["oracle"], v["cls"], v.get("where", ""))


def replay_path(prop, seed, oracle=""):
    d = os.environ.get("VERIF_REPLAY_DIR") or os.path.join(VERIF, "replays")
    os.makedirs(d, exist_ok=True)
    tag = "".join(ch if ch.isalnum() else "_" for ch in oracle)[:40]
    return os.path.join(d, "%s-%d%s.json" % (prop, seed, "-" + tag if tag else ""))


def write_replay(prop, engine, plan, violation, text, minimised, extra=None):
    path = replay_path(prop, plan["run_seed"], violation.get("oracle", ""))
    doc = {
        "property": prop,
        "engine": engine,
        "run_seed": plan["run_seed"],
        "violation": violation,
        "minimised": minimised,
        "text": text,
        "plan": plan,
    }
    if extra:
        doc.update(extra)
    with open(path, "w") as f:
        json.dump(doc, f, indent=1, sort_keys=True)
    return path


def do_replay(prop, path):
    with open(path) as f:
        doc = json.load(f)
    engine = doc["engine"]
    mod = runner.engine_module(engine)
    runner.preload()
    if doc.get("chain"):
        rec = shrink.run_chain(mod, doc["chain"])
    else:
        rec = shrink.run_plan(mod, doc["plan"])
    want = doc["violation"]
    got = [v for v in rec["violations"] if v["prop"] == prop and (v["oracle"], v["cls"]) == (want["oracle"], want["cls"])]
    if rec.get("text") and engine == "E2":
        say("--- program ---")
        say(rec["text"])
    say(mod.describe(rec["plan"]))
    if got:
        say("reproduced: %s" % json.dumps(got[0]))
        kf = findings.match(prop, got[0], rec["plan"], rec)
        if kf:
            say("KNOWN-FINDING: property=%s %s" % (prop, kf["what"]))
            return 0
        say("VIOLATION property=%s replay=%s" % (prop, path))
        return 1
    say("not reproduced on this tree (violations now: %s)" % json.dumps(rec["violations"][:3]))
    return 0


def fresh_digest(engine, prop, seed, hashseed):
    env = dict(os.environ)
    env["PYTHONHASHSEED"] = str(hashseed)
    out = subprocess.run(
        [sys.executable, "-B", "-s", os.path.join(HERE, "cli.py"), "run-one", engine, prop, str(seed)],
        env=env,
        capture_output=True,
        text=True,
        timeout=300,
    )
    if out.returncode != 0:
        raise runner.HarnessError("run-one %s %s %s failed (exit %s): %s %s" % (engine, prop, seed, out.returncode, out.stdout[-1500:], out.stderr[-1500:]))
    return out.stdout.strip().split()[-1]


def run_one(engine, prop, seed):
    mod = runner.engine_module(engine)
    runner.preload()

    def job():
        return mod.execute(mod.plan_run(seed, prop))["digest"]

    say(runner.fork_call(job))
    return 0


def check(prop, tier, runs=None, workers=None, wall=None):
    t0 = time.time()
    engine = ENGINE_OF[prop]
    mod = runner.engine_module(engine)
    pristine = runner.preload()
    master = int(os.environ.get("VERIF_SEED", "0"))
    os.environ["VERIF_TIER_ACTIVE"] = tier  # some deeper bounds are explored in the thorough tier only
    d_runs, d_workers, d_wall = TIERS[engine][tier]
    runs = runs or d_runs
    workers = workers or d_workers
    wall = wall or d_wall
    say("check %s engine=%s tier=%s VERIF_SEED=%d runs=%d workers=%d tree=%s pristine_zygote=%s" % (prop, engine, tier, master, runs, workers, seams.REPO_SRC, pristine))

    recs, timed_out = runner.run_batch(engine, prop, master, runs, workers, n_samples=3, wall_s=wall, stop_after_violating_runs=40)
    batch_s = time.time() - t0
    harness_errors = [r for r in recs if "harness_error" in r]
    good = [r for r in recs if "harness_error" not in r]

    # ---- determinism: first run of every chunk re-executed at the end of its chunk,
    # then spot checks: same seed again alone in a fork, and in a fresh interpreter
    det_fail = []
    dup_checked = 0
    for r in good:
        if "dup_digest" in r:
            dup_checked += 1
            if r["dup_digest"] != r["digest"]:
                det_fail.append(("history-dependent-digest-within-chunk", r["seed"]))
    spot = good[:: max(1, len(good) // 6)][:6]
    for r in spot:
        d2 = runner.fork_call(lambda r=r: mod.execute(mod.plan_run(r["seed"], prop))["digest"])
        if d2 != r["digest"]:
            det_fail.append(("refork", r["seed"]))
    for r in spot[:2]:
        d3 = fresh_digest(engine, prop, r["seed"], 12345)
        if d3 != r["digest"]:
            det_fail.append(("fresh-interpreter", r["seed"]))

    # ---- violations of this property, grouped by signature
    groups = {}
    other_props = {}
    for r in good:
        for v in r.get("violations") or []:
            if v["prop"] != prop:
                other_props[v["prop"]] = other_props.get(v["prop"], 0) + 1
                continue
            groups.setdefault(vsig(v), []).append((r, v))
    reported, known = [], []
    exit_code = 0
    shrink_left = [300 if tier == "quick" else 1500]  # candidate executions for the whole check
    for sig, items in sorted(groups.items(), key=lambda kv: -len(kv[1]))[:5]:
        items.sort(key=lambda rv: len(rv[0].get("text") or ""))
        r, v = items[0]
        plan = r["plan"]
        # confirm by replay before reporting
        try:
            rec = shrink.run_plan(mod, plan)
        except runner.HarnessError as e:
            harness_errors.append({"harness_error": "replay: %s" % e})
            continue
        if not shrink.reproduces(rec, shrink.sig_of(v)):
            # not reproducible alone: does it need the runs that preceded it in its chunk
            # (state the library keeps between calls)?  Replay the chunk prefix as a chain.
            K = runner.CHUNK[engine]
            mine = list(range(r["i"] % workers, runs, workers))
            pos = mine.index(r["i"])
            prefix = mine[(pos // K) * K : pos + 1]
            chain = [mod.plan_run(runner.run_seed_for(master, engine, prop, i), prop) for i in prefix]
            try:
                crec = shrink.run_chain(mod, chain)
            except runner.HarnessError as e:
                harness_errors.append({"harness_error": "chain replay: %s" % e})
                continue
            if len(chain) > 1 and shrink.reproduces(crec, shrink.sig_of(v)):
                chain, used = shrink.shrink_chain(mod, chain, shrink.sig_of(v), budget=40 if tier == "quick" else 120)
                crec = shrink.run_chain(mod, chain)
                v2 = [x for x in crec["violations"] if shrink.sig_of(x) == shrink.sig_of(v)] or [v]
                path = write_replay(prop, engine, crec["plan"], v2[0], crec.get("text"), True, {"chain": chain, "shrink_executions": used, "occurrences_in_batch": len(items), "note": "the violation needs the earlier runs of the chain executed in the same process"})
                reported.append({"signature": list(sig), "occurrences": len(items), "replay": path, "detail": v2[0].get("detail", ""), "chain_length": len(chain)})
                say("--- failing case needs a history of %d runs in one process (%d occurrences, %s); last program: ---" % (len(chain), len(items), "/".join(map(str, sig))))
                say(crec.get("text") or "")
                say("detail: %s" % v2[0].get("detail", ""))
                say("VIOLATION property=%s replay=%s" % (prop, path))
                exit_code = 1
            else:
                det_fail.append(("violation-did-not-replay", r["seed"]))
            continue
        budget = min(shrink_left[0], 150 if tier == "quick" else 600)
        small, used = shrink.shrink(mod, rec["plan"], shrink.sig_of(v), budget=budget)
        shrink_left[0] -= used
        rec2 = shrink.run_plan(mod, small)
        v2 = [x for x in rec2["violations"] if shrink.sig_of(x) == shrink.sig_of(v)]
        if not v2:
            small, rec2, v2 = rec["plan"], rec, [v]
        kf = findings.match(prop, v2[0], rec2["plan"], rec2)
        if kf:
            # the listed finding explains this member of the group; the other members must be
            # explained by it too, or one of them is reported as the new violation it is
            # members that no listed finding can explain (decided without executing) first
            rest = sorted(items[1:], key=lambda rv: 0 if (rv[0].get("plan") and findings.surely_unlisted(prop, rv[1], rv[0]["plan"])) else 1)
            for r3, v3 in rest[:12]:
                try:
                    rec3 = shrink.run_plan(mod, r3["plan"])
                except runner.HarnessError:
                    continue
                v3s = [x for x in rec3["violations"] if shrink.sig_of(x) == shrink.sig_of(v)]
                if v3s and not findings.match(prop, v3s[0], rec3["plan"], rec3):
                    small3, used3 = shrink.shrink(mod, rec3["plan"], shrink.sig_of(v), budget=min(shrink_left[0], 100))
                    shrink_left[0] -= used3
                    rec4 = shrink.run_plan(mod, small3)
                    v4 = [x for x in rec4["violations"] if shrink.sig_of(x) == shrink.sig_of(v)]
                    if v4 and not findings.match(prop, v4[0], rec4["plan"], rec4):
                        rec2, v2, kf_other = rec4, v4, None
                    else:
                        rec2, v2 = rec3, v3s
                    known.append({"finding": kf["id"], "what": kf["what"], "occurrences": "some of %d" % len(items)})
                    say("KNOWN-FINDING: property=%s %s" % (prop, kf["what"]))
                    kf = None
                    break
        path = write_replay(prop, engine, rec2["plan"], v2[0], rec2.get("text"), True, {"shrink_executions": used, "occurrences_in_batch": len(items)})
        if kf:
            known.append({"finding": kf["id"], "what": kf["what"], "occurrences": len(items), "replay": path})
            say("KNOWN-FINDING: property=%s %s" % (prop, kf["what"]))
        else:
            reported.append({"signature": list(sig), "occurrences": len(items), "replay": path, "detail": v2[0].get("detail", "")})
            say("--- minimised failing case (%d occurrences, %s) ---" % (len(items), "/".join(map(str, sig))))
            if engine == "E2":
                say(rec2.get("text") or "")
            say(mod.describe(rec2["plan"]))
            say("detail: %s" % v2[0].get("detail", ""))
            say("VIOLATION property=%s replay=%s" % (prop, path))
            exit_code = 1

    # ---- evidence
    probes = {}
    faults = {}
    steps = ticks = 0
    digests_nontrivial = set()
    interleavings = set()
    hists = set()
    states = set()
    for r in good:
        for k, n in (r.get("probes") or {}).items():
            probes[k] = probes.get(k, 0) + n
        for k, n in (r.get("faults") or {}).items():
            faults[k] = faults.get(k, 0) + n
        steps += r.get("steps") or 0
        ticks += r.get("ticks") or 0
        if r.get("nontrivial"):
            digests_nontrivial.add(r["digest"])
        if r.get("interleaving"):
            interleavings.add(r["interleaving"])
        if r.get("hist"):
            hists.add(r["hist"])
        for s in r.get("state_digests") or []:
            states.add(s)
    samples = []
    for r in good[:3]:
        if r.get("plan"):
            samples.append(mod.sample_view(r))
    wall = time.time() - t0
    expected = getattr(mod, "EXPECTED_PROBES", {}).get(prop, [])
    probes_zero = [p for p in expected if not probes.get(p)]
    ev = {
        "property_id": prop,
        "tier": tier,
        "seed": master,
        "level": "exploration",
        "coverage": {
            "evaluations": len(good),
            "distinct_nontrivial": len(digests_nontrivial),
            "rule": mod.RULE.get(prop, mod.RULE.get("*", "")),
            "samples": samples or [{"note": "no sample captured"}],
            "runs_requested": runs,
            "batch_cut_by_wall_clock": bool(timed_out),
            "runs_per_hour": int(len(good) / max(batch_s, 1e-9) * 3600),
            "seeds_per_hour": int(len(good) / max(batch_s, 1e-9) * 3600),
            "run_seed_first": good[0]["seed"] if good else None,
            "run_seed_last": good[-1]["seed"] if good else None,
            "logical_time_line_events": steps,
            "machine_time_gate_ticks": ticks,
            "simulated_wall_clock": "none: no anchored code reads a clock, sleeps or sets a timer",
            "faults_fired": faults,
            "distinct_interleavings": len(interleavings),
            "distinct_histories": len(hists),
            "distinct_states": len(states),
            "probes": dict(sorted(probes.items())),
            "probes_zero": probes_zero,
            "components": COMPONENTS,
            "workers": workers,
            "pristine_zygote": pristine,
            "determinism_spot_checks": len(spot) + min(2, len(spot)),
            "determinism_in_chunk_reexecutions": dup_checked,
            "violations_reported": reported,
            "known_findings_matched": known,
            "violations_of_other_properties_seen": other_props,
            "harness_errors": len(harness_errors),
        },
        "assumptions": mod.ASSUMPTIONS,
        "wall_s": round(wall, 3),
        "violations": len(reported),
    }
    evdir = os.environ.get("VERIF_EVIDENCE_DIR") or os.path.join(VERIF, "evidence")
    os.makedirs(evdir, exist_ok=True)
    with open(os.path.join(evdir, prop + ".json"), "w") as f:
        json.dump(ev, f, indent=1, sort_keys=True)
    say(
        "%s: %d runs in %.1fs (%.0f runs/h), %d distinct non-trivial, logical time %d line events, %d reported, %d known findings, %d harness errors"
        % (prop, len(good), wall, ev["coverage"]["runs_per_hour"], len(digests_nontrivial), steps, len(reported), len(known), len(harness_errors))
    )
    for p in probes_zero:
        say("warning: probe never hit: %s" % p)
    if det_fail:
        say("HARNESS: determinism divergence: %r" % det_fail[:5])
    if harness_errors:
        say("HARNESS: %d runs failed inside the harness; first: %s" % (len(harness_errors), harness_errors[0]["harness_error"][:1500]))
    if exit_code == 1:
        # every reported violation was confirmed by replaying its recorded plan in a new
        # process, so it stands even if other runs diverged or failed in the harness
        return 1
    if det_fail or harness_errors:
        return 2
    if not good:
        say("HARNESS: no run completed")
        return 2
    return exit_code


def selftest_determinism(n):
    runner.preload()
    bad = 0
    total = 0
    for engine, props in (("E2", ["C03", "C08", "C09", "C15"]), ("E1", ["C10", "C11", "C16"])):
        try:
            mod = runner.engine_module(engine)
        except ImportError:
            continue
        for prop in props:
            for i in range(n):
                seed = H(12345, engine, prop, i)
                a = runner.fork_call(lambda: mod.execute(mod.plan_run(seed, prop))["digest"])
                b = runner.fork_call(lambda: mod.execute(mod.plan_run(seed, prop))["digest"])
                digs = {a, b}
                if i % 4 == 0:
                    digs.add(fresh_digest(engine, prop, seed, 0))
                    digs.add(fresh_digest(engine, prop, seed, 12345))
                total += 1
                if len(digs) != 1:
                    bad += 1
                    say("DIVERGENCE %s %s seed=%d %r" % (engine, prop, seed, digs))
    say("determinism: %d seeds, %d divergences" % (total, bad))
    return 2 if bad else 0


def setup():
    ok = runner.preload()
    say("jaqalpaq tree: %s ; pristine zygote: %s" % (seams.REPO_SRC, ok))
    import numpy, sly  # noqa

    if not ok:
        say("HARNESS: importlib.util is already loaded in the zygote; a missing import of it in the library could not be observed")
        return 2
    # every module of the harness must at least compile
    for fn in sorted(os.listdir(HERE)):
        if fn.endswith(".py"):
            with open(os.path.join(HERE, fn)) as f:
                compile(f.read(), fn, "exec")
    return selftest_determinism(2)


def main(argv):
    if not argv:
        say(__doc__)
        return 2
    cmd = argv[0]
    if cmd == "setup":
        return setup()
    if cmd == "selftest":
        what = argv[1] if len(argv) > 1 else "determinism"
        n = int(argv[argv.index("--n") + 1]) if "--n" in argv else 12
        if what == "determinism":
            return selftest_determinism(n)
        if what == "mutants":
            from sim import selftest

            return selftest.mutants(argv[2:])
        return 2
    if cmd == "run-one":
        return run_one(argv[1], argv[2], int(argv[3]))
    prop = cmd
    if prop not in ENGINE_OF:
        say("unknown property %s" % prop)
        return 2
    if "--replay" in argv:
        return do_replay(prop, argv[argv.index("--replay") + 1])
    tier = os.environ.get("VERIF_TIER", "quick")
    if "--tier" in argv:
        tier = argv[argv.index("--tier") + 1]
    runs = int(argv[argv.index("--runs") + 1]) if "--runs" in argv else None
    workers = int(argv[argv.index("--workers") + 1]) if "--workers" in argv else None
    wall = int(argv[argv.index("--wall") + 1]) if "--wall" in argv else None
    return check(prop, tier, runs, workers, wall)


if __name__ == "__main__":
    try:
        code = main(sys.argv[1:])
    except runner.HarnessError as e:
        say("HARNESS: %s" % e)
        code = 2
    sys.exit(code)
