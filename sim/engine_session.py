"""E1 - session simulator (C10, C11, C16).

One run is one simulated stretch of a process lifetime: a pool of shared circuit objects
and a seeded history of library calls on them, with faults on the source store (corrupted,
truncated, torn texts), on the pulse-module store (missing / broken / raising modules), with
cancellation at line event k, and with nested calls at the library's two re-entrancy points.
"""
import copy
import json
import os
import shutil
import sys
import tempfile

from . import gateset as GS
from . import gen, progast, refmachine, seams, snapshot, extract
from .prng import H, Streams, Tape, hexdigest

PROPS = ("C10", "C11", "C16")


class SimPulseFault(Exception):
    """Raised by a scratch pulse module whose top level is planned to fail."""


class V(list):
    def add(self, prop, oracle, cls, where="", detail="", op=None):
        self.append({"prop": prop, "oracle": oracle, "cls": cls, "where": where, "detail": str(detail)[:400], "op": op})


# ====================================================================== planning helpers

PASSES = ["expand_macros", "expand_macros_preserve", "fill_in_let", "fill_in_let_O", "expand_subcircuits", "expand_subcircuits_caller", "fill_in_map", "unit_timing"]
ANALYSES = ["generate", "used_qubits", "used_qubits_in_context", "run", "output", "resolve", "repr", "eq", "used_qubits_scribble", "run_scribble"]
FLIP_PALETTE = ["$", "@", "'", '"', "\\", "\t", "\r", "\0", "é", "/*", "*/", "//", "[", "]", "{", "}", "<", ">", "|", ";", ":", "0", "-", "a", ".", " ", "\n", "~", "#", "`"]


def make_program(st, name, profile, prop, force=None):
    ts = st.get("swarm:" + name)
    cfg = gen.swarm(ts, profile)
    if force:
        cfg.update(force)
    g = gen.Gen(st.get("program:" + name), cfg)
    prog, ov = g.program()
    return prog, ov, cfg


def corrupt(text, t):
    """One text-store fault; -> (corrupted text, fault descriptor)."""
    n = len(text)
    kind = t.weighted([("truncate", 4), ("flip", 4), ("dup", 1), ("drop", 1.5), ("token", 2), ("torn", 1), ("number", 1.5), ("decl", 1.2), ("bom", 0.5)])
    if n == 0:
        return text, {"kind": "none"}
    if kind == "bom":
        # a byte order mark in front (files saved by some editors) and an illegal character
        # at the start of a token of the first line: either the mark itself is the first
        # offending character (line 1 column 1) or the position counts it
        eol = text.find("\n") if "\n" in text else n
        starts = [i for i in range(0, max(eol, 1)) if i < n and not text[i].isspace() and (i == 0 or text[i - 1].isspace())]
        if not starts or "//" in text[:eol] or "/*" in text[:eol]:
            kind = "flip"
        else:
            o = t.choice(starts)
            return "\ufeff" + text[:o] + "$" + text[o + 1 :], {"kind": "flip", "at": o + 1, "ch": "$", "bom": True}
    if kind == "decl":
        # an extra declaration line whose names are taken from the text itself (a second
        # register sized by the first, a map of a let, a let named like a macro ...)
        import re

        if "//" in text or "/*" in text:
            kind = "truncate"
        else:
            names = sorted(set(re.findall(r"[A-Za-z_][A-Za-z0-9_]*", text)) - {"let", "register", "map", "macro", "loop", "subcircuit", "from", "usepulses"}) or ["q"]
            a_, b_ = t.choice(names), t.choice(names)
            line = t.choice(["register z[%s]" % a_, "register %s[2]" % a_, "map z %s" % a_, "map z %s[%s]" % (a_, b_), "map z %s[0:%s]" % (a_, b_), "let z %s" % a_, "let %s 1" % a_, "macro %s %s { }" % (a_, b_), "loop %s { }" % a_, "%s %s" % (a_, b_), "%s[%s]" % (a_, b_)])
            bounds = [0] + [i + 1 for i, ch in enumerate(text) if ch == "\n"]
            at = t.choice(bounds)
            if "usepulses" not in text and t.chance(0.25):
                # reserved words of statements the grammar knows but the library does not
                # implement: the error must point at that line
                line = t.choice(["import %s as %s" % (a_, b_), "import foo as bar", "import %s" % a_, "as %s" % a_, "from %s import %s" % (a_, b_), "from %s usepulses %s" % (a_, b_)])
                return text[:at] + line + "\n" + text[at:], {"kind": "decl-reserved", "at": at, "line": line}
            return text[:at] + line + "\n" + text[at:], {"kind": "decl", "at": at, "line": line}
    if "usepulses" in text and t.chance(0.06):
        # a pulse import that names, relatively, something this process has already loaded
        # from elsewhere (the import directory has no such file: the call must fail and leave
        # the loaded module alone)
        import re as _re2

        m_ = _re2.search(r"from\s+(\.?[A-Za-z_][A-Za-z0-9_.]*)\s+usepulses", text)
        if m_:
            nm = t.choice(["json", "json", "colorsys", "json.decoder"])
            return text[: m_.start(1)] + "." + nm + text[m_.end(1) :], {"kind": "import-loaded", "at": m_.start(1), "name": nm}
    if "usepulses" in text and t.chance(0.12):
        # relative / absolute confusion in a pulse import
        i = text.find("from .")
        if i >= 0:
            return text[: i + 5] + text[i + 6 :], {"kind": "import-undot", "at": i + 5}
        i = text.find("from ")
        if i >= 0:
            return text[: i + 5] + "." + text[i + 5 :], {"kind": "import-dot", "at": i + 5}
    if kind == "number":
        import re as _re

        nums = [(m.start(), m.end()) for m in _re.finditer(r"(?<![A-Za-z_0-9.])[-+]?[0-9]+(?:\.[0-9]+)?(?:[eE][-+]?[0-9]+)?", text)]
        if nums:
            a, b = nums[t.randrange(len(nums))]
            lit = t.choice(["-1", "-2", "-3", "1.0e999", "1.0e999", "-1.0e999", "-2.5E+400", "1.0e-999", "99999999999999999999999999", "-99999999999999999999", "0000", "+5", "00.5", ".5", "5.", "1e5", "0x10", "1_000", "1.5.2", "--1", "1e", "-0", "-0.0", "9" * 400, "9" * 5000, "64", "1000", "40"])
            return text[:a] + lit + text[b:], {"kind": "number", "at": a, "lit": lit[:12]}
        kind = "truncate"
    if kind == "truncate":
        o = t.randrange(n + 1) if not t.chance(0.2) else max(0, n - 1 - t.randrange(3))
        return text[:o], {"kind": "truncate", "at": o}
    if kind == "flip":
        o = t.randrange(n)
        ch = t.choice(FLIP_PALETTE)
        return text[:o] + ch + text[o + 1 :], {"kind": "flip", "at": o, "ch": ch}
    if kind == "dup":
        a = t.randrange(n)
        b = min(n, a + 1 + t.randrange(20))
        return text[:b] + text[a:b] + text[b:], {"kind": "dup", "a": a, "b": b}
    if kind == "drop":
        a = t.randrange(n)
        b = min(n, a + 1 + t.randrange(12))
        return text[:a] + text[b:], {"kind": "drop", "a": a, "b": b}
    if kind == "torn":
        # a torn write: the tail of the file is an older/other version
        o = t.randrange(n)
        tail = text[::-1][: n - o] if t.chance(0.3) else text[: n - o]
        return text[:o] + tail, {"kind": "torn", "at": o}
    import re

    toks = [(m.start(), m.end()) for m in re.finditer(r"[A-Za-z_][A-Za-z0-9_.]*|[-+]?[0-9.]+(?:[eE][-+]?[0-9]+)?|\S", text)]
    if len(toks) < 2:
        return text[: n // 2], {"kind": "truncate", "at": n // 2}
    i = t.randrange(len(toks))
    a, b = toks[i]
    how = t.choice(["delete", "duplicate", "swap"])
    if how == "delete":
        return text[:a] + text[b:], {"kind": "token-delete", "at": a}
    if how == "duplicate":
        return text[:b] + " " + text[a:b] + text[b:], {"kind": "token-duplicate", "at": a}
    j = (i + 1) % len(toks)
    (a1, b1), (a2, b2) = sorted([toks[i], toks[j]])
    return text[:a1] + text[a2:b2] + text[b1:a2] + text[a1:b1] + text[b2:], {"kind": "token-swap", "at": a1}


# ====================================================================== the session


class Session:
    """Executes operations on a pool of shared objects under the step clock."""

    def __init__(self, plan, st, role="main"):
        seams.install_repo()
        self.plan = plan
        self.st = st
        self.role = role
        self.clock = seams.StepClock()
        GS.VARIANT = plan.get("gateset_variant", 0)
        GS.restore_stored()
        self.G = GS.build_gateset(style=plan.get("gateset_style", "direct"), stored=bool(plan.get("gateset_stored")))
        if plan.get("gateset") == "nobusy":
            # a native gate table that lacks prepare_all / measure_all
            self.G = {k: v for k, v in self.G.items() if k not in GS.BUSY}
        self.viol = V()
        self.probes = {}
        self.faults = {}
        self.log = []
        self.pool = {}  # id -> {"obj","kind","prov"}
        self.next_id = 0
        self.snaps = {}
        self.scratch = tempfile.mkdtemp(prefix="jaqsim-")
        snapshot.SCRATCH.append(self.scratch)
        self._texts = {}
        self._modules = set()
        self._path_added = False
        self.states = []
        self.nested_log = []
        self.prepare_store()

    # ---------------------------------------------------------------- housekeeping
    def close(self):
        GS.VARIANT = 0
        GS.CALLBACK = None
        GS.PULSE_TOP_CALLBACK = None
        for m in list(self._modules):
            for k in [k for k in sys.modules if k == m or k.startswith(m + ".")]:
                del sys.modules[k]
        for nb in getattr(self, "_neighbours", []):
            sys.modules.pop(nb, None)
        if self._path_added and self.scratch in sys.path:
            sys.path.remove(self.scratch)
        if self.scratch in snapshot.SCRATCH:
            snapshot.SCRATCH.remove(self.scratch)
        shutil.rmtree(self.scratch, ignore_errors=True)

    def probe(self, name, k=1):
        self.probes[name] = self.probes.get(name, 0) + k

    def fault(self, name, k=1):
        self.faults[name] = self.faults.get(name, 0) + k

    # ---------------------------------------------------------------- texts and stores
    def text(self, ti):
        if ti in self._texts:
            return self._texts[ti]
        e = self.plan["texts"][ti]
        if "raw" in e:
            txt = e["raw"]
        else:
            prog = e["prog"]
            if e.get("pulses"):
                prog = dict(prog)
                pm = e["pulses"]
                prog["pulses"] = ("." if pm["relative"] else "") + pm["mod"]
            lay = progast.Layout(Tape(H(self.plan["run_seed"], "layout", ti)), e.get("noise", 0.0))
            txt = progast.render(prog, lay)
            if e.get("crlf"):
                txt = txt.replace("\n", "\r\n")  # the same program saved with Windows line ends
        if e.get("pulses"):
            self.ensure_module(e["pulses"])
        self._texts[ti] = txt
        return txt

    def prepare_store(self):
        """Durable state exists before the first operation, identically in every process
        lifetime of this run: the pulse-module files, and the scratch directory on
        sys.path iff some text imports a module absolutely."""
        for e in self.plan["texts"]:
            if e.get("pulses"):
                self.ensure_module(e["pulses"])
        if any(e.get("pulses") and not e["pulses"]["relative"] and e["pulses"].get("on_path", True) for e in self.plan["texts"]):
            sys.path.insert(0, self.scratch)
            self._path_added = True
        import importlib
        import types

        # somebody else's module whose name merely begins like a pulse module's (gates and
        # gates_v2): importing or reloading the one must leave the other alone
        self._neighbours = []
        for e in self.plan["texts"]:
            if e.get("pulses"):
                nb = e["pulses"]["mod"] + "_v2"
                if nb not in sys.modules:
                    sys.modules[nb] = types.ModuleType(nb)
                    self._neighbours.append(nb)
        importlib.invalidate_caches()

    def ensure_module(self, pm):
        name = pm["mod"]
        if name in self._modules:
            return
        self._modules.add(name)
        kind = pm["kind"]
        pre = post = ""
        if kind == "raises":
            self.fault("pulse-raises")
            raise_line = "from sim.engine_session import SimPulseFault as _F\nraise _F(%r)\n" % name
            if pm.get("j", 0) == 0:
                pre = raise_line
            else:
                post = raise_line
        src = GS.PULSE_MODULE_SOURCE.format(verif=seams.VERIF_DIR, modname=name, pre=pre, post=post)
        if kind == "noattr":
            self.fault("pulse-no-attr")
            src = "# no jaqal_gates here\nx = 1\n"
        if kind == "missing":
            self.fault("pulse-missing")
            return
        if kind == "dir_no_init":
            # a directory of that name which is no package: the module cannot be found
            self.fault("pulse-dir-without-init")
            d = os.path.join(self.scratch, name)
            os.makedirs(d, exist_ok=True)
            with open(os.path.join(d, "readme.txt"), "w") as f:
                f.write("not a package\n")
            return
        if kind == "package":
            d = os.path.join(self.scratch, name)
            os.makedirs(d, exist_ok=True)
            with open(os.path.join(d, "__init__.py"), "w") as f:
                f.write(src)
        else:
            with open(os.path.join(self.scratch, name + ".py"), "w") as f:
                f.write(src)

    def parse_kwargs(self, ti, kw):
        e = self.plan["texts"][ti]
        out = {}
        if e.get("pulses"):
            out.update(autoload_pulses=True, import_path=self.scratch)
            if e["pulses"].get("no_import_dir"):
                # the caller's import directory does not exist (any more)
                out["import_path"] = os.path.join(self.scratch, "no_such_directory")
            if kw.get("inject_subset"):
                # inject_pulses overrides usepulses for the named gates
                out["inject_pulses"] = {k: self.G[k] for k in kw["inject_subset"] if k in self.G}
        elif e.get("anon"):
            out.update(inject_pulses=None, autoload_pulses=False)
        else:
            out.update(inject_pulses=self.G, autoload_pulses=False)
        for k in ("expand_macro", "expand_let", "expand_let_map"):
            if kw.get(k):
                out[k] = True
        if kw.get("override"):
            out["override_dict"] = dict(kw["override"])
        return out

    # ---------------------------------------------------------------- callables
    def parse_callable(self, op):
        from jaqalpaq.parser import parse_jaqal_string, parse_jaqal_file
        from jaqalpaq.parser.parser import parse_to_sexpression
        from jaqalpaq.core.circuitbuilder import build

        ti = op["text"]
        txt = self.text(ti)
        kw = self.parse_kwargs(ti, op.get("kw", {}))
        via = op.get("via", "string")
        ru = bool(op.get("kw", {}).get("return_usepulses"))

        def unwrap(r):
            # (circuit, {"usepulses": ...}) when return_usepulses was requested
            if ru:
                c, extra = r
                if not isinstance(extra, dict) or "usepulses" not in extra:
                    raise AssertionError("return_usepulses: second value is %r" % (extra,))
                return c
            return r

        if ru:
            kw["return_usepulses"] = True
        if via == "file":
            path = os.path.join(self.scratch, "prog%d.jaqal" % ti)
            with open(path, "w", encoding="utf8", newline="") as f:
                f.write(txt)
            kw.pop("import_path", None) if not self.plan["texts"][ti].get("pulses") else None
            return lambda: unwrap(parse_jaqal_file(path, **kw))
        if via == "sexpr":
            bkw = {k: kw[k] for k in ("inject_pulses", "autoload_pulses", "import_path") if k in kw}
            return lambda: build(parse_to_sexpression(txt), **bkw)
        if via == "run_string":
            from jaqalpaq.run import run_jaqal_string

            return lambda: run_jaqal_string(txt, import_path=kw.get("import_path", self.scratch))
        if via == "run_file":
            from jaqalpaq.run import run_jaqal_file

            path = os.path.join(self.scratch, "run%d.jaqal" % ti)
            with open(path, "w", encoding="utf8", newline="") as f:
                f.write(txt)
            return lambda: run_jaqal_file(path)
        if via == "header":
            from jaqalpaq.parser.parser import parse_jaqal_string_header

            return lambda: parse_jaqal_string_header(txt, return_usepulses=True)
        if via == "header_file":
            from jaqalpaq.parser.parser import parse_jaqal_file_header

            path = os.path.join(self.scratch, "hdr%d.jaqal" % ti)
            with open(path, "w", encoding="utf8", newline="") as f:
                f.write(txt)
            return lambda: parse_jaqal_file_header(path)
        return lambda: unwrap(parse_jaqal_string(txt, **kw))

    def shared_backend(self):
        """One emulator backend object for the whole lifetime of this session."""
        if getattr(self, "_shared_be", None) is None:
            from jaqalpaq.emulator.unitary import UnitarySerializedEmulator

            self._shared_be = UnitarySerializedEmulator()
            self.probe("shared_backend_object")
        return self._shared_be

    def pass_callable(self, name, override, c):
        from jaqalpaq.core.algorithm import expand_macros, fill_in_let, expand_subcircuits
        from jaqalpaq.core.algorithm.fill_in_map import fill_in_map
        from jaqalpaq.core.algorithm.unit_timing import normalize_blocks_with_unitary_timing
        from jaqalpaq.core import GateDefinition

        if name == "expand_macros":
            return lambda: expand_macros(c)
        if name == "expand_macros_preserve":
            return lambda: expand_macros(c, preserve_definitions=True)
        if name == "fill_in_let":
            return lambda: fill_in_let(c)
        if name == "fill_in_let_O":
            if getattr(self, "share_override_objects", False):
                # the caller's own dictionary object, the same one for every call
                return lambda: fill_in_let(c, override_dict=override)
            return lambda: fill_in_let(c, override_dict=dict(override or {}))
        if name == "expand_subcircuits":
            return lambda: expand_subcircuits(c)
        if name == "expand_subcircuits_caller":
            return lambda: expand_subcircuits(c, prepare_def=GateDefinition("prepare_all"), measure_def=GateDefinition("measure_all"))
        if name == "fill_in_map":
            return lambda: fill_in_map(c)
        if name == "unit_timing":
            return lambda: normalize_blocks_with_unitary_timing(c)
        raise ValueError(name)

    def analyse_callable(self, op, c, j, fresh=None, shared=False):
        from jaqalpaq.generator import generate_jaqal_program
        from jaqalpaq.core.algorithm.used_qubit_visitor import get_used_qubit_indices
        from jaqalpaq.run import run_jaqal_circuit
        from jaqalpaq.core.result import parse_jaqal_output_list

        name = op["name"]
        if name == "generate":
            return lambda: generate_jaqal_program(c)
        if name == "used_qubits":
            return lambda: {k: sorted(v) for k, v in get_used_qubit_indices(c).items()}
        if name == "run":
            seed = H(self.plan["run_seed"], "sampler", j)

            def job():
                s = seams.SimSampler(Tape(seed), "faithful")
                old = seams.install_sampler(s)
                try:
                    if op.get("shared_be") and shared:
                        return run_jaqal_circuit(c, backend=self.shared_backend())
                    return run_jaqal_circuit(c)
                finally:
                    seams.install_sampler(old)

            return job
        if name == "output":
            outs = list(op.get("outputs") or [])
            return lambda: parse_jaqal_output_list(c, list(outs))
        if name == "resolve":

            def job():
                out = []
                for g in extract.iter_gates(c):
                    for a in g.parameters.values():
                        if hasattr(a, "resolve_qubit") and hasattr(a, "alias_index"):
                            try:
                                r, i = a.resolve_qubit()
                                out.append((g.name, r.name, i))
                            except Exception as e:
                                out.append((g.name, type(e).__name__))
                return out

            return job
        if name == "used_qubits_in_context":
            # the documented way to inspect an instruction inside a macro call: the call's
            # parameters are the context

            def job_ctx():
                from jaqalpaq.core.macro import Macro

                out = []
                for g in extract.iter_gates(c):
                    if isinstance(g.gate_def, Macro):
                        for st_ in g.gate_def.body.statements:
                            try:
                                r = get_used_qubit_indices(st_, context=g.parameters)
                                out.append((g.name, {k: sorted(v) for k, v in r.items()}))
                            except Exception as e_:
                                out.append((g.name, type(e_).__name__))
                return out

            return job_ctx
        if name == "used_qubits_scribble":
            # scribble over what the analysis returned, then ask again: the answer must not
            # have been a view of anything the library keeps

            def job_uq():
                r = get_used_qubit_indices(c)
                first = {k: sorted(v) for k, v in r.items()}
                for v in r.values():
                    v.add(99)
                r["__scribble__"] = {1}
                r2 = get_used_qubit_indices(c)
                second = {k: sorted(v) for k, v in r2.items()}
                return {"first": first, "__stable__": first == second}

            return job_uq
        if name == "run_scribble":
            seed = H(self.plan["run_seed"], "sampler", j)

            def job_rs():
                outs = []
                for rep in range(2):
                    s_ = seams.SimSampler(Tape(seed), "faithful")
                    old = seams.install_sampler(s_)
                    try:
                        res = run_jaqal_circuit(c)
                    finally:
                        seams.install_sampler(old)
                    outs.append(self.value_digest(res))
                    for sc in res.subcircuits:  # scribble over the returned result
                        sc.relative_frequency_by_int[:] = 7
                        sc.simulated_probability_by_int[:] = 0.5
                        sc.readouts.clear()
                        try:
                            sc.state_vector[:] = 0
                        except Exception:
                            pass
                    res.subcircuits.clear()
                return {"first": outs[0], "__stable__": outs[0] == outs[1]}

            return job_rs
        if name == "repr":
            return lambda: repr(c)
        if name == "eq":
            return lambda: (c == c, c == fresh, fresh == c) if fresh is not None else (c == c,)
        raise ValueError(name)

    # ---------------------------------------------------------------- digests
    def value_digest(self, v):
        try:
            from jaqalpaq.core.result import ExecutionResult
        except Exception:
            ExecutionResult = ()
        if isinstance(v, ExecutionResult):
            try:
                return self._result_digest(v)
            except RecursionError:
                raise
            except Exception as e:
                # (reading a returned result raised: part of what the result is)
                return "unreadable-result:" + type(e).__name__
        return self._value_digest_other(v)

    def _result_digest(self, v):
        if True:
            out = []
            for sc in v.subcircuits:
                sv = getattr(sc, "state_vector", None)
                out.append((sc.index, None if sv is None else [repr(complex(x)) for x in sv], [int(r.as_int) for r in sc.readouts], [float(x) for x in sc.relative_frequency_by_int]))
            out.append([(int(r.as_int), r.index, r.subcircuit.index) for r in v.readouts])
            return hexdigest(out)

    def _value_digest_other(self, v):
        if isinstance(v, str):
            import re

            return hexdigest(re.sub(r"0x[0-9a-f]+", "0x", snapshot._s(v)))
        if isinstance(v, (list, tuple, dict, int, float, bool)) or v is None:
            return hexdigest(snapshot.snap(v, identity=False))
        return snapshot.digest(v, identity=False)

    def outcome_digest(self, o):
        k = o["kind"]
        if k == "ok":
            try:
                return ("ok", self.value_digest(o["value"]))
            except RecursionError:
                # (the harness's own snapshot recurses too: a value nested too deeply for it)
                return ("ok", "value-too-deep-for-the-snapshot")
        if k == "JaqalParseError":
            e = o["exc"]
            return (k, repr(getattr(e, "line", None)), repr(getattr(e, "column", None)))
        return (k,)

    # ---------------------------------------------------------------- pool
    def add(self, obj, kind, prov):
        i = self.next_id
        self.next_id += 1
        self.pool[i] = {"obj": obj, "kind": kind, "prov": prov}
        self.snaps[i] = snapshot.snap(obj, identity=True)
        return i

    def rebuild(self, prov):
        """A freshly built copy: the provenance replayed on a new parse."""
        obj = None
        for op in prov:
            if op["op"] == "parse":
                obj = self.parse_callable(op)()
            else:
                obj = self.pass_callable(op["name"], op.get("override"), obj)()
        return obj

    def check_frozen(self, j, opname, stage=""):
        for i, ent in self.pool.items():
            s = snapshot.snap(ent["obj"], identity=True)
            if s != self.snaps[i]:
                d = snapshot.diff_path(self.snaps[i], s)
                self.viol.add("C11", "input_frozen", "mutated", opname, "pool[%d] (%s) changed after %s%s: %s" % (i, ent["kind"], opname, stage, "; ".join(d)), op=j)
                self.snaps[i] = s
        g = snapshot.snap(self.G, identity=True)
        if g != self.g_snap:
            d = snapshot.diff_path(self.g_snap, g)
            self.viol.add("C11", "gate_table_frozen", "mutated", opname, "native gate table changed after %s%s: %s" % (opname, stage, "; ".join(d)), op=j)
            self.g_snap = g
        changed = GS.stored_changed()
        if changed:
            # the array a definition hands out on every call belongs to the gate table too
            self.viol.add("C11", "gate_table_frozen", "mutated", opname, "the stored matrix of %s was modified in place after %s%s" % (", ".join(changed), opname, stage), op=j)
            GS.restore_stored()


def budget_parse(text):
    return 300000 + 600 * len(text)


def scrub(rec_plan):
    return rec_plan


# ====================================================================== C11


def plan_c11(run_seed):
    st = Streams(run_seed)
    t = st.get("ops")
    prop = "C11"
    texts = []
    ntexts = t.randint(1, 2)
    for i in range(ntexts):
        profile = "exec" if t.chance(0.6) else "general"
        force = {"p_lets": 0.9, "p_letsize": 0.7, "p_maps": 0.8, "p_let_use": 0.6} if t.chance(0.35) else None
        prog, ov, cfg = make_program(st, "t%d" % i, profile, prop, force)
        if t.chance(0.3):
            prog["pulses"] = t.choice(["qscout.v1.std", "lab.gates"])  # never loaded: pure header data
        texts.append({"prog": prog, "noise": cfg["layout_noise"], "anon": cfg["anon"], "exec": profile == "exec", "ov": ov})
    enabled_passes = [p for p in PASSES if t.chance(0.7)] or ["expand_macros"]
    enabled_an = [a for a in ANALYSES if t.chance(0.7)] or ["generate"]
    p_interrupt = t.choice([0.0, 0.3, 0.5])
    p_nested = t.choice([0.0, 0.2, 0.4])
    p_bad = t.choice([0.0, 0.15])
    p_shared_be = t.choice([0.0, 0.0, 0.6])
    ops = []
    live = []  # (pool id, text index, is_result)
    nid = 0
    nops = t.randint(4, 30 if os.environ.get("VERIF_TIER_ACTIVE") == "thorough" else 20)
    for _ in range(nops):
        if not live or (t.chance(0.15) and len(live) < 6):
            ti = t.randrange(ntexts)
            kw = {}
            if t.chance(0.3):
                kw[t.choice(["expand_macro", "expand_let", "expand_let_map"])] = True
                if (kw.get("expand_let") or kw.get("expand_let_map")) and texts[ti]["ov"] and t.chance(0.6):
                    kw["override"] = texts[ti]["ov"]
            if t.chance(0.15):
                kw["return_usepulses"] = True
            ops.append({"op": "parse", "text": ti, "kw": kw, "via": t.weighted([("string", 6), ("sexpr", 1), ("file", 1)])})
            live.append((nid, ti, False))
            nid += 1
            continue
        circuits = [x for x in live if not x[2]]
        if not circuits:
            continue
        src, ti, _ = t.choice(circuits)
        x = t.random()
        if x < 0.45:
            name = t.choice(enabled_passes)
            op = {"op": "pass", "name": name, "src": src}
            if name == "fill_in_let_O":
                ov = dict(texts[ti]["ov"] or {})
                x2 = t.random()
                if x2 < 0.3:
                    ov = {}
                elif x2 < 0.6:
                    # another dictionary than last time on this object
                    for nm, v in texts[ti]["prog"]["lets"]:
                        if t.chance(0.6):
                            ov[nm] = t.choice(gen.INT_VALUES) if isinstance(v, int) else t.choice(gen.FLOAT_VALUES)
                if t.chance(p_bad) and texts[ti]["prog"]["lets"]:
                    nm = t.choice(texts[ti]["prog"]["lets"])[0]
                    ov[nm] = t.choice([-1, 7, 100, 0])
                op["override"] = ov
            will_add = len(live) < 6
            op["keep"] = will_add
            if will_add:
                live.append((nid, ti, False))
            nid += 1
        elif x < 0.93:
            name = t.choice(enabled_an)
            op = {"op": "analyse", "name": name, "src": src}
            if name == "run":
                if t.chance(p_shared_be):
                    op["shared_be"] = True
                op["keep"] = len(live) < 6
                if op["keep"]:
                    live.append((nid, ti, True))
                nid += 1
            if name == "output":
                op["outputs_seed"] = t.randrange(1 << 30)
                op["encoding"] = t.choice(["int", "str", "mixed"])
        else:
            if len(live) > 1:
                victim = t.choice(live)
                live.remove(victim)
                ops.append({"op": "drop", "src": victim[0]})
            continue
        if op["op"] in ("pass", "analyse") and t.chance(p_interrupt):
            op["interrupt"] = t.random()
        if op["op"] == "analyse" and op["name"] == "run" and t.chance(p_nested):
            victim = t.choice(circuits)[0]
            nested = {"op": "pass", "name": t.choice(enabled_passes), "src": victim} if t.chance(0.6) else {"op": "analyse", "name": t.choice([a for a in enabled_an if a not in ("output",)] or ["generate"]), "src": victim}
            if nested.get("name") == "fill_in_let_O":
                nested["override"] = {}
            op["nested"] = {"at": t.randrange(6), "op": nested}
        ops.append(op)
    return {"engine": "E1", "prop": "C11", "run_seed": run_seed, "texts": texts, "ops": ops, "gateset": t.weighted([("full", 5), ("nobusy", 1)]), "gateset_style": t.choice(["direct", "direct", "copied"]), "gateset_variant": t.randrange(4), "gateset_stored": t.chance(0.4), "tapes": None}


def output_list_for(sess, op, entry_ti, c):
    """A hardware output list of matching length for an executable text."""
    e = sess.plan["texts"][entry_ti]
    if not e.get("exec"):
        return None
    return None


def exec_c11(plan):
    st = Streams(plan["run_seed"], recorded=plan.get("tapes"))
    S = Session(plan, st)
    try:
        S.g_snap = snapshot.snap(S.G, identity=True)
        idmap = {}  # planned pool id -> actual pool id (None if creation failed)
        nid = 0
        ti_of = {}
        hist = []
        for j, op in enumerate(plan["ops"]):
            kind = op["op"]
            if kind == "drop":
                a = idmap.get(op["src"])
                if a is not None and a in S.pool:
                    del S.pool[a]
                    del S.snaps[a]
                    idmap[op["src"]] = None
                hist.append(("drop",))
                continue
            if kind == "parse":
                fn = S.parse_callable(op)
                o = seams.outcome_of(fn, S.clock, budget_parse(S.text(op["text"])))
                # twin: the same parse again must give the same value
                o2 = seams.outcome_of(S.parse_callable(op), S.clock, budget_parse(S.text(op["text"])))
                if S.outcome_digest(o) != S.outcome_digest(o2):
                    S.viol.add("C11", "same_result_on_fresh_copy", "mismatch", "parse", "parse twice gives different results", op=j)
                S.check_frozen(j, "parse")
                if o["kind"] == "ok":
                    idmap[nid] = S.add(o["value"], "circuit", [op])
                    ti_of[nid] = op["text"]
                else:
                    idmap[nid] = None
                    if o["kind"] == "nonterm":
                        S.viol.add("C11", "terminates", "nonterm", o["where"], op=j)
                nid += 1
                hist.append(("parse", o["kind"]))
                S.log.append((j, "parse", S.outcome_digest(o)))
                continue
            a = idmap.get(op["src"])
            if a is None or a not in S.pool or S.pool[a]["kind"] != "circuit":
                if (kind == "pass") or (kind == "analyse" and op["name"] == "run"):
                    idmap[nid] = None
                    nid += 1
                hist.append((kind, "skipped"))
                continue
            ent = S.pool[a]
            c = ent["obj"]
            opname = op["name"]
            # ---- twin on a freshly built copy (also yields the clean step count)
            try:
                fresh = S.rebuild(ent["prov"])
            except BaseException as e:
                S.viol.add("C11", "same_result_on_fresh_copy", "rebuild_failed", seams.innermost_repo_frame(e), "%s: %s" % (type(e).__name__, e), op=j)
                hist.append((kind, "rebuild_failed"))
                continue
            fresh2 = None
            if kind == "analyse" and opname == "eq":
                fresh2 = S.rebuild(ent["prov"])
            outputs = None
            if kind == "analyse" and opname == "output":
                outputs = hardware_outputs(S, ent, op)
                if outputs is None:
                    hist.append((kind, "skipped"))
                    continue
                op = dict(op)
                op["outputs"] = outputs

            def mk(target, fresh_for_eq):
                if kind == "pass":
                    return S.pass_callable(opname, op.get("override"), target)
                return S.analyse_callable(op, target, j, fresh_for_eq, shared=target is c)

            budget = 5_000_000
            ot = seams.outcome_of(mk(fresh, fresh2), S.clock, budget)
            # ---- cancellation at line event k of the same operation on the shared object
            if op.get("interrupt") is not None and ot.get("steps", 0) > 0:
                k = 1 + int(op["interrupt"] * ot["steps"])
                oi = seams.outcome_of(mk(c, fresh2), S.clock, budget, inject_at=k)
                if oi["kind"] == "interrupt":
                    S.fault("interrupt")
                    S.probe("interrupt_landed_in:" + opname)
                S.check_frozen(j, opname, " (interrupted at line event %d, in %s)" % (k, oi.get("where")))
            # ---- nested operation at a re-entrancy point
            if op.get("nested"):
                run_nested(S, op, idmap, j)
            o = seams.outcome_of(mk(c, fresh2), S.clock, budget)
            GS.CALLBACK = None
            S.check_frozen(j, opname)
            if o["kind"] == "nonterm":
                S.viol.add("C11", "terminates", "nonterm", o["where"], op=j)
            if o["kind"] == "ok" and isinstance(o["value"], dict) and o["value"].get("__stable__") is False:
                S.viol.add("C11", "result_is_not_a_view_of_library_state", "mismatch", opname, "%s: modifying the returned value changed what the next identical call returns" % opname, op=j)
            d1, d2 = S.outcome_digest(o), S.outcome_digest(ot)
            if d1 != d2:
                S.viol.add("C11", "same_result_on_fresh_copy", "mismatch", opname, "%s on the shared object gives %r, on a freshly parsed copy %r" % (opname, d1, d2), op=j)
            if o["kind"] not in ("ok",):
                S.probe("op_failed_then_object_reused")
            hist.append((kind, opname, o["kind"], "int" if op.get("interrupt") is not None else "", "nest" if op.get("nested") else ""))
            S.log.append((j, kind, opname, d1))
            if kind == "pass":
                if o["kind"] == "ok" and op.get("keep"):
                    idmap[nid] = S.add(o["value"], "circuit", ent["prov"] + [{"op": "pass", "name": opname, "override": op.get("override")}])
                    ti_of[nid] = ti_of.get(op["src"])
                else:
                    idmap[nid] = None
                nid += 1
            elif kind == "analyse" and opname == "run":
                if o["kind"] == "ok" and op.get("keep"):
                    idmap[nid] = S.add(o["value"], "result", [])
                    S.probe("result_kept_alive")
                else:
                    idmap[nid] = None
                nid += 1
            S.states.append(hexdigest([S.snaps[i] for i in sorted(S.snaps)]))
        rec = finish(S, plan, st, hist)
    finally:
        S.close()
    return rec


def hardware_outputs(S, ent, op):
    """An output list of matching length: the visit count comes from emulating a fresh copy."""
    from jaqalpaq.run import run_jaqal_circuit

    try:
        fresh = S.rebuild(ent["prov"])
        s = seams.SimSampler(Tape(1), "faithful")
        old = seams.install_sampler(s)
        try:
            res = run_jaqal_circuit(fresh)
        finally:
            seams.install_sampler(old)
    except BaseException:
        return None
    n = len(res.subcircuits[0].measured_qubits) if res.subcircuits else 1
    t = Tape(op.get("outputs_seed", 0))
    vals = [t.randrange(2**n) for _ in res.readouts]
    enc = op.get("encoding", "int")
    out = []
    for v in vals:
        e = enc if enc != "mixed" else ("int" if t.chance(0.5) else "str")
        out.append(v if e == "int" else format(v, "b").zfill(n)[::-1])
    return out


def run_nested(S, op, idmap, j):
    """Arm the ideal_unitary re-entrancy point: at call number `at` run another operation
    (a pass or an analysis, possibly on the very circuit being emulated)."""
    nest = op["nested"]
    inner = nest["op"]
    a = idmap.get(inner["src"])
    if a is None or a not in S.pool or S.pool[a]["kind"] != "circuit":
        return
    target = S.pool[a]["obj"]
    count = [0]

    def cb(name, argv):
        count[0] += 1
        if count[0] - 1 != nest["at"]:
            return
        GS.CALLBACK = None
        if inner["op"] == "pass":
            fn = S.pass_callable(inner["name"], inner.get("override"), target)
        else:
            fn = S.analyse_callable(inner, target, j * 1000 + 1)
        try:
            fn()
            S.nested_log.append((j, inner.get("name"), "ok"))
        except BaseException as e:
            if isinstance(e, (seams.StepBudgetExceeded, seams.SimInterrupt)):
                raise
            S.nested_log.append((j, inner.get("name"), type(e).__name__))
        S.fault("nested-call")
        S.probe("nested_op_fired")

    GS.CALLBACK = cb


def finish(S, plan, st, hist):
    plan = dict(plan)
    plan["tapes"] = st.dump()
    text0 = None
    try:
        text0 = S.text(0) if plan.get("texts") else None
        ops = S.plan.get("ops_materialised") or []
        for v in S.viol:
            j = v.get("op")
            if v.get("sweep_text") is not None:
                text0 = v["sweep_text"]
                break
            if isinstance(j, int) and j < len(ops) and "text" in ops[j]:
                text0 = S.text(ops[j]["text"])
                break
    except Exception:
        pass
    return {
        "violations": list(S.viol),
        "probes": S.probes,
        "faults": S.faults,
        "digest": hexdigest(S.log),
        "steps": S.clock.total,
        "ticks": 0,
        "interleaving": hexdigest(S.nested_log) if S.nested_log else None,
        "nontrivial": bool(S.faults) or any(len(h) > 1 for h in hist),
        "hist": hexdigest(hist),
        "state_digests": S.states[-3:],
        "log": S.log,
        "plan": plan,
        "text": text0,
        "twin_ref": getattr(S, "twin_ref", None),
    }


# ====================================================================== dispatch


def plan_run(run_seed, prop):
    if prop == "C11":
        return plan_c11(run_seed)
    if prop == "C16":
        return plan_c16(run_seed)
    if prop == "C10":
        return plan_c10(run_seed)
    raise ValueError(prop)


def execute(plan):
    if plan["prop"] == "C11":
        return exec_c11(plan)
    if plan["prop"] == "C16":
        return exec_c16(plan)
    if plan["prop"] == "C10":
        return exec_c10(plan)
    raise ValueError(plan["prop"])


def needs_twin(prop):
    return prop == "C16"


def needs_pristine_reference(prop):
    """C11 ('the same results as on a freshly parsed copy') and C16 ('the same result
    regardless of what was processed before') are also statements about what earlier
    *runs* of the same process left behind: the last run of every chunk is executed once
    more, alone, in a process that has never run anything."""
    return prop in ("C11", "C16")


def pristine_reference(plan):
    rec = _execute_inner(plan)
    return {"digest": rec["digest"], "log": rec.get("log")}


def compare_pristine(rec, ref):
    if not ref or rec.get("digest") == ref.get("digest"):
        return
    a, b = rec.get("log") or [], ref.get("log") or []
    k = next((i for i, (x, y) in enumerate(zip(a, b)) if json.loads(json.dumps(x)) != json.loads(json.dumps(y))), min(len(a), len(b)))
    here = a[k] if k < len(a) else None
    there = b[k] if k < len(b) else None
    prop = rec["plan"]["prop"] if rec.get("plan") else "C16"
    rec.setdefault("violations", []).append(
        {
            "prop": prop,
            "oracle": "same_result_in_a_process_that_ran_nothing_before",
            "cls": "history_dependent",
            "where": "",
            "detail": "operation log entry %d: %r after the earlier runs of this process, %r when the same run is executed alone in a new process" % (k, here, there),
        }
    )


# ====================================================================== C16


DEEP_KINDS = ("loops", "blocks", "aliases", "macros", "subloops")


def deep_text(kind, d, exec_):
    """A small legal program whose only unusual feature is depth d: nested loops, alternating
    sequential/parallel blocks, an alias of an alias of ..., a macro calling a macro calling
    ..., a subcircuit under d loops.  Every interpreter has a recursion limit; what the
    property demands is that hitting it surfaces as a JaqalError (or not at all) and that
    cost does not explode with depth."""
    g = "Rx q[0] 0.5" if exec_ else "foo q[0]"
    pre, post = ("prepare_all\n", "measure_all\n") if exec_ else ("", "")
    if kind == "loops":
        return "register q[2]\n" + "loop 1 {\n" * d + pre + g + "\n" + post + "}\n" * d
    if kind == "blocks":
        opens = "".join("{\n" if i % 2 == 0 else "<\n" for i in range(d))
        closes = "".join("}\n" if i % 2 == 0 else ">\n" for i in reversed(range(d)))
        return "register q[2]\n" + pre + opens + g + "\n" + closes + post
    if kind == "aliases":
        g2 = ("Rx a%d[0] 0.5" if exec_ else "foo a%d[0]") % d
        return "register q[4]\nmap a0 q[0:4]\n" + "".join("map a%d a%d[0:3]\n" % (i + 1, i) for i in range(d)) + pre + g2 + "\n" + post
    if kind == "macros":
        return "register q[2]\nmacro m0 a { %s }\n" % g.replace("q[0]", "a") + "".join("macro m%d a { m%d a }\n" % (i + 1, i) for i in range(d)) + pre + "m%d q[0]\n" % d + post
    if kind == "subloops":
        return "register q[2]\n" + "loop 1 {\n" * d + "subcircuit { " + g + " }\n" + "}\n" * d
    raise ValueError(kind)


def plan_c16(run_seed):
    st = Streams(run_seed)
    t = st.get("ops")
    if t.chance(0.08):
        return plan_c16_sweep(run_seed, st, t)
    texts = []
    ntexts = t.randint(1, 3)
    modbase = "simpulse_%x" % (run_seed & 0xFFFFFFFF)
    for i in range(ntexts):
        x = t.random()
        if x < 0.35:
            prog, ov, cfg = make_program(st, "t%d" % i, "exec", "C16", {"anon": False})
            e = {"prog": prog, "noise": cfg["layout_noise"], "anon": False, "exec": True, "ov": ov}
            if t.chance(0.5):
                kind = t.weighted([("good", 5), ("package", 1.5), ("missing", 1.5), ("noattr", 1.5), ("raises", 2), ("dir_no_init", 1.0)])
                e["pulses"] = {"mod": "%s_%d" % (modbase, i), "relative": t.chance(0.6), "kind": kind, "j": t.randrange(2)}
                if e["pulses"]["relative"] and kind in ("good", "package") and t.chance(0.12):
                    e["pulses"]["no_import_dir"] = True
        else:
            prog, ov, cfg = make_program(st, "t%d" % i, "general", "C16")
            e = {"prog": prog, "noise": cfg["layout_noise"], "anon": cfg["anon"], "exec": False, "ov": ov}
            if not cfg["anon"] and t.chance(0.25):
                kind = t.weighted([("good", 4), ("missing", 1), ("noattr", 1), ("raises", 2)])
                e["pulses"] = {"mod": "%s_%d" % (modbase, i), "relative": t.chance(0.6), "kind": kind, "j": t.randrange(2)}
        if t.chance(0.1):
            # Windows line ends (whether the library takes them or rejects the first \r, every
            # position it reports must be a position in the text as given)
            e["crlf"] = True
            e["exec"] = False
        if t.chance(0.18) and e["prog"]["lets"]:
            # unusual but lexically legal: an integer let that is 0 or negative (it may be a
            # slice step, a size, an index, a count)
            ints = [x for x in e["prog"]["lets"] if isinstance(x[1], int)]
            structural = set()
            for m in e["prog"]["maps"]:
                for k in ("idx", "start", "stop", "step"):
                    if isinstance(m.get(k), str):
                        structural.add(m[k])
            for st_ in progast.all_statements(e["prog"]):
                if st_["k"] in ("loop", "sub") and isinstance(st_.get("count"), str):
                    structural.add(st_["count"])
                if st_["k"] == "gate":
                    for a in st_["args"]:
                        if a[0] == "item" and isinstance(a[2], str):
                            structural.add(a[2])
            if e["prog"].get("reg") and isinstance(e["prog"]["reg"][1], str):
                structural.add(e["prog"]["reg"][1])
            pref = [x for x in ints if x[0] in structural]
            if ints:
                (t.choice(pref) if pref and t.chance(0.85) else t.choice(ints))[1] = t.choice([0, 0, -1, -2])
                e["exec"] = False
        if t.chance(0.15) and e["prog"]["maps"] and e["prog"].get("reg"):
            # a reversed alias: negative step, start at the last element - or one past it
            sl = [m for m in e["prog"]["maps"] if m["kind"] == "slice"]
            if sl:
                m_ = t.choice(sl)
                size_ = e["prog"]["reg"][1] if isinstance(e["prog"]["reg"][1], int) else 3
                m_["start"], m_["stop"], m_["step"] = t.choice([size_ - 1, size_, size_, size_ + 1]), 0, -t.choice([1, 1, 2])
                e["exec"] = False
                if not e.get("anon") and t.chance(0.7):
                    # ... and its first element (possibly a qubit that does not exist) is used
                    # by a gate that an execution reaches
                    e["prog"]["body"].append({"k": "sub", "count": None, "body": [{"k": "gate", "name": "Rx", "args": [["item", m_["name"], 0], ["num", 1.0]]}]})
        if t.chance(0.15) and e["prog"]["macros"]:
            # a macro called with an argument of another kind than its body needs
            names = {m["name"] for m in e["prog"]["macros"]}
            calls = [x for x in progast.all_statements(e["prog"]) if x["k"] == "gate" and x["name"] in names and x["args"]]
            if calls:
                c_ = t.choice(calls)
                rn = e["prog"]["reg"][0] if e["prog"].get("reg") else "q"
                if len(c_["args"]) >= 2 and t.chance(0.4):
                    i_ = t.randrange(len(c_["args"]) - 1)
                    c_["args"][i_], c_["args"][i_ + 1] = c_["args"][i_ + 1], c_["args"][i_]  # swapped arguments
                else:
                  c_["args"][t.randrange(len(c_["args"]))] = t.choice([["num", 1.5], ["num", 2.0], ["num", 1], ["id", rn], ["item", rn, 0], ["num", -1], ["raw", "1.0e999"], ["raw", "-2.0E+400"]])
                e["exec"] = False
        if t.chance(0.15) and e["prog"].get("reg"):
            # a name of the wrong kind: some identifier slot (register size, map source,
            # index or bound, loop count, gate argument, indexed name) refers to another
            # declared thing - a register where a let is expected, a macro where a qubit is
            pr = e["prog"]
            names = [x[0] for x in pr["lets"]] + [pr["reg"][0]] + [m["name"] for m in pr["maps"]] + [m["name"] for m in pr["macros"]]
            for m in pr["macros"]:
                names += list(m["params"])
            names += ["Rx", "prepare_all"]
            if t.chance(0.3):
                # a second register (illegal in itself, but it is only noticed at the end of
                # the build) gives the other slots a register name to be confused with
                e["prog"] = pr = dict(pr)
                pr["extra_regs"] = [["z", t.choice([1, 2, 3])]]
                names += ["z", "z", "z"]
            slots = []  # (container, key)
            if isinstance(pr["reg"][1], str) or t.chance(0.3):
                slots.append((pr["reg"], 1))
            for m in pr["maps"]:
                slots.append((m, "src"))
                for k_ in ("idx", "start", "stop", "step"):
                    if isinstance(m.get(k_), str) or (m.get(k_) is not None and t.chance(0.2)):
                        slots.append((m, k_))
            for st_ in progast.all_statements(pr):
                if st_["k"] in ("loop", "sub") and (isinstance(st_.get("count"), str) or (st_.get("count") is not None and t.chance(0.3))):
                    slots.append((st_, "count"))
                if st_["k"] == "gate":
                    for a in st_["args"]:
                        if a[0] == "id":
                            slots.append((a, 1))
                        elif a[0] == "item":
                            slots.append((a, 1))
                            if isinstance(a[2], str) or t.chance(0.2):
                                slots.append((a, 2))
            if slots and names:
                cont, key = t.choice(slots)
                other = [n_ for n_ in names if n_ != cont[key]]
                if other:
                    cont[key] = t.choice(other)
                    e["exec"] = False
                    e["name_confusion"] = True
        if t.chance(0.12):
            # unusual but lexically legal: a negative loop or subcircuit count
            loops = [x for x in progast.all_statements(e["prog"]) if x["k"] in ("loop", "sub")]
            if loops:
                tgt = t.choice(loops)
                tgt["count"] = -t.randint(1, 3)
                e["exec"] = False
        if t.chance(0.08):
            e["prog"] = dict(e["prog"])
            e["prog"]["reg"] = None  # programs without a register
            e["exec"] = False
        elif t.chance(0.06) and e["prog"].get("reg") and not e.get("anon"):
            # a register no emulator can hold (the program itself is fine)
            e["prog"] = dict(e["prog"])
            e["prog"]["reg"] = [e["prog"]["reg"][0], t.choice([40, 64, 64, 200, 1000])]
            e["exec"] = False
            e["huge_register"] = True
        texts.append(e)
    if t.chance(0.05):
        kind = t.choice(DEEP_KINDS)
        d = t.choice([24, 30, 45] if kind == "aliases" else [40, 160, 220, 320, 520])  # (alias chains cost d^2 as it is)
        ex = t.chance(0.6)
        texts.append({"raw": deep_text(kind, d, ex), "anon": not ex, "exec": False, "ov": None, "deep": {"kind": kind, "d": d, "exec": ex}})
    # a module that exists in the import directory but is named absolutely while that
    # directory is not on sys.path: it must stay unfindable whatever relative imports
    # (successful or failed) happened before
    for i, e in enumerate(list(texts)):
        if e.get("pulses") and e["pulses"]["relative"] and t.chance(0.35):
            e2 = copy.deepcopy(e)
            e2["pulses"] = {"mod": "%s_x%d" % (modbase, i), "relative": False, "kind": "good", "j": 0, "on_path": False}
            texts.append(e2)
            break
    # F12 scenario: the same module name imported relatively (fails) and absolutely
    for i, e in enumerate(list(texts)):
        if e.get("pulses") and e["pulses"]["kind"] == "raises" and e["pulses"]["relative"] and t.chance(0.7):
            e2 = copy.deepcopy(e)
            e2["pulses"]["relative"] = False
            texts.append(e2)
    ops = []
    nops = t.randint(4, 24 if os.environ.get("VERIF_TIER_ACTIVE") == "thorough" else 16)
    p_bad = t.choice([0.3, 0.5, 0.7])
    p_interrupt = t.choice([0.0, 0.15, 0.3])
    p_nested = t.choice([0.0, 0.3])
    p_shared_be = t.choice([0.0, 0.0, 0.6])
    ncorrupt = 0
    for _ in range(nops):
        ti = t.randrange(len(texts))
        e = texts[ti]
        x = t.random()
        if x < 0.04:
            ops.append({"op": "env_import"})
            continue
        kw = {}
        if t.chance(0.35):
            kw[t.choice(["expand_macro", "expand_let", "expand_let_map"])] = True
            if t.chance(0.3):
                kw[t.choice(["expand_macro", "expand_let", "expand_let_map"])] = True
            if (kw.get("expand_let") or kw.get("expand_let_map")) and e.get("ov") and t.chance(0.5):
                kw["override"] = e["ov"]
        if e.get("pulses") and t.chance(0.2):
            kw["inject_subset"] = t.sample(sorted(GS.SIGS), t.randint(1, 3))
        if t.chance(0.15):
            kw["return_usepulses"] = True
        if t.chance(p_bad) and "raw" not in e:
            # a corrupted variant of text ti becomes a new text entry
            ops.append({"op": "corrupt", "text": ti, "seed": t.randrange(1 << 30), "kw": kw, "shared_be": t.chance(p_shared_be), "via": t.weighted([("string", 5), ("file", 2), ("sexpr", 1), ("header", 0.5), ("run", 1.0 if not e.get("anon") else 0.2), ("run_file", 0.7 if e.get("pulses") else 0)])})
            ncorrupt += 1
            continue
        via = t.weighted([("string", 5), ("file", 1.5), ("sexpr", 1), ("header", 0.6), ("header_file", 0.3), ("run_string", 2 if e.get("pulses") else 0), ("run_file", 1 if e.get("pulses") else 0), ("run", 3 if not e.get("anon") else 0.5)])
        op = {"op": "parse", "text": ti, "kw": kw if via in ("string", "file", "run") else {}, "via": via}
        if via in ("run", "run_string", "run_file"):
            op["variant"] = t.randrange(4)  # the gate definitions in force for this call
            if t.chance(0.3):
                op["sampler"] = "numpy"
        if via == "run" and t.chance(p_shared_be):
            op["shared_be"] = True
        if t.chance(p_interrupt):
            op["interrupt"] = t.random()
        if via in ("run", "run_string", "run_file") and e.get("exec") and t.chance(p_nested):
            other = ti if t.chance(0.6) else t.randrange(len(texts))
            bad = t.randrange(1 << 30) if t.chance(0.4) else None
            op["nested"] = {"at": t.randrange(5), "op": {"op": "parse", "text": other, "kw": {}, "via": "string", "bad_seed": bad, "run": bad is None and t.chance(0.7)}}
        if e.get("pulses") and t.chance(p_nested):
            other = t.randrange(len(texts))
            op["nested_pulse_top"] = {"op": "parse", "text": other, "kw": {}, "via": "string", "bad_seed": t.randrange(1 << 30) if t.chance(0.6) else None}
        ops.append(op)
    if t.chance(0.07):
        ops.insert(t.randrange(len(ops) + 1), {"op": "probe_unterminated", "text": t.randrange(len(texts)), "seed": t.randrange(1 << 30), "length": t.choice([30, 60, 120, 400])})
    return {"engine": "E1", "prop": "C16", "run_seed": run_seed, "texts": texts, "ops": ops, "tapes": None}


def plan_c16_sweep(run_seed, st, t):
    if t.chance(0.3):
        # the other exhaustive sweep: one call statement, every combination of argument kinds
        prog, ov, cfg = make_program(st, "sweep", "exec" if t.chance(0.6) else "general", "C16", {"budget": t.randint(3, 9), "layout_noise": 0.0, "p_macros": 1.0, "p_call": 0.5, "anon": False, "p_regparam": 0.6})
        e = {"prog": prog, "noise": 0.0, "anon": False, "exec": cfg["profile"] == "exec", "ov": ov}
        return {"engine": "E1", "prop": "C16", "run_seed": run_seed, "texts": [e], "ops": [], "sweep": {"kind": "args", "pick": t.randrange(1 << 30), "flips": 0, "flip_seed": 0, "flags": True}, "tapes": None}
    prog, ov, cfg = make_program(st, "sweep", "general" if t.chance(0.6) else "exec", "C16", {"budget": t.randint(3, 9), "layout_noise": t.choice([0.0, 0.5])})
    e = {"prog": prog, "noise": cfg["layout_noise"], "anon": cfg["anon"], "exec": cfg["profile"] == "exec", "ov": ov}
    return {"engine": "E1", "prop": "C16", "run_seed": run_seed, "texts": [e], "ops": [], "sweep": {"flips": 2, "flip_seed": t.randrange(1 << 30), "flags": t.chance(0.5)}, "tapes": None}


def big_literal(text):
    """Does the text ask for a lot of work by itself (a loop count or register size of 10
    or more, possibly produced by a corruption)?  Then exceeding the step budget or
    running out of memory is not a verdict: the budget cannot tell long from infinite."""
    import re

    for m in re.finditer(r"(?<![A-Za-z_0-9.])[0-9]+(?![0-9.eE])", text):
        try:
            if int(m.group(0)) >= 10:
                return True
        except ValueError:
            return True
    return False


def check_type(S, j, op, o, text, allowed_extra=()):
    """I-type / I-live: the failure discipline of C16."""
    k = o["kind"]
    if k == "ok" or k == "JaqalError":
        return
    if op.get("via") in ("file", "run_file", "header_file"):
        # Python's text layer hands the library universal newlines
        text = text.replace("\r\n", "\n").replace("\r", "\n")
    if big_literal(text) and k in ("nonterm", "exc:MemoryError"):
        S.probe("budget_verdict_waived_big_literal")
        return
    if k == "nonterm":
        S.viol.add("C16", "terminates", "nonterm", o["where"], "step budget exceeded", op=j)
        return
    if k == "JaqalParseError":
        e = o["exc"]
        line, col = getattr(e, "line", None), getattr(e, "column", None)
        lines = text.split("\n")
        ok = False
        if line == "EOF":
            ok = isinstance(col, int)
        elif isinstance(line, int) and isinstance(col, int) and not isinstance(line, bool):
            if 1 <= line <= len(lines) + 1:
                ln = lines[line - 1] if line - 1 < len(lines) else ""
                ok = 0 <= col <= len(ln) + 1
        if not ok:
            S.viol.add("C16", "parse_error_position", "bad_position", o["where"], "line=%r column=%r for a text of %d lines" % (line, col, len(lines)), op=j)
            return
        # the text before the first corrupted character is a prefix of a valid program, so
        # the offending token cannot lie on an earlier line (an unterminated block comment is
        # reported at its opener, which may precede the corruption: such texts are skipped)
        fd = op.get("fault") or {}
        at = fd.get("at", fd.get("a"))
        if isinstance(at, int) and isinstance(line, int) and "/*" not in text and ("import" not in text or fd.get("kind") == "decl-reserved") and op.get("via") not in ("file", "run_file", "header_file"):
            # exact position where it is known: a character no token starts with is reported
            # where it stands; a closing bracket as the very first character likewise
            exact = None
            if fd.get("kind") == "flip" and at < len(text) and "//" not in text[:at]:
                ch = text[at]
                if ch in "$@~#`\\\0é\"" or (at == 0 and ch in "]}>|:,*"):
                    exact = (text.count("\n", 0, at) + 1, at - text.rfind("\n", 0, at))
            first_cr = text.find("\r", 0, at)
            if first_cr >= 0 and exact is not None and len(fd.get("ch", "")) == 1:
                # a carriage return stands before the fault: the library may stop there
                # (it is no token either) - or, if it takes \r\n as a line end, at the fault
                cr_pos = (text.count("\n", 0, first_cr) + 1, first_cr - text.rfind("\n", 0, first_cr))
                if (line, col) == cr_pos:
                    S.probe("carriage_return_reported_as_first_offender")
                    return
            if exact is not None and len(fd.get("ch", "")) == 1:
                # the parser may already object to the token that the character cut short, so
                # anything from the start of that run of non-blank characters up to the
                # character itself is the offending token's position
                lo = at
                while lo > 0 and not text[lo - 1].isspace():
                    lo -= 1
                ok_cols = range(lo - text.rfind("\n", 0, at), exact[1] + 1)
                if fd.get("bom") and (line, col) == (1, 1):
                    S.probe("byte_order_mark_reported_as_first_offender")
                elif line != exact[0] or col not in ok_cols:
                    S.viol.add("C16", "parse_error_position", "wrong_position", o["where"], "character %r at line %d column %d reported at line %r column %r" % (text[at], exact[0], exact[1], line, col), op=j)
                else:
                    S.probe("exact_position_checked")
            first_line = text.count("\n", 0, min(at, len(text))) + 1
            if first_cr >= 0:
                first_line = min(first_line, text.count("\n", 0, first_cr) + 1)
            if line < first_line:
                S.viol.add("C16", "parse_error_position", "before_the_fault", o["where"], "error reported on line %d, the text is intact up to line %d" % (line, first_line), op=j)
            else:
                S.probe("position_checked_against_fault_offset")
        return
    if k in allowed_extra:
        return
    if k.startswith("exc-in-stub:"):
        # the pulse definitions' own matrix function raised (not demanded to be wrapped)
        S.probe("exception_inside_stub_gate_matrix")
        return
    S.viol.add("C16", "only_jaqal_errors_escape", k, o["where"], "%s: %s" % (k, o.get("exc")), op=j)


def c16_callable(S, op, j):
    """Callable for a parse-like C16 operation."""
    from jaqalpaq.run import run_jaqal_circuit

    via = op.get("via", "string")
    if via == "run":
        base = S.parse_callable(dict(op, via="string"))
        seed = H(S.plan["run_seed"], "sampler", j)

        def job():
            c = base()
            s = seams.SimSampler(Tape(seed), op.get("sampler", "faithful"))
            if op.get("sampler") == "numpy":
                # the library's own numpy.random.choice (it has opinions about what a
                # probability vector is), seeded
                import numpy

                numpy.random.seed(seed % (2**32))
            old = seams.install_sampler(s)
            try:
                if op.get("shared_be"):
                    # the caller's own backend object, the same one for every such call
                    return run_jaqal_circuit(c, backend=S.shared_backend())
                return run_jaqal_circuit(c)
            finally:
                seams.install_sampler(old)

        return job
    if via in ("run_string", "run_file"):
        base = S.parse_callable(op)
        seed = H(S.plan["run_seed"], "sampler", j)

        def job2():
            s = seams.SimSampler(Tape(seed), op.get("sampler", "faithful"))
            if op.get("sampler") == "numpy":
                import numpy

                numpy.random.seed(seed % (2**32))
            old = seams.install_sampler(s)
            try:
                return base()
            finally:
                seams.install_sampler(old)

        return job2
    return S.parse_callable(op)


def allowed_for(S, op):
    """Narrow relaxations of I-type: ImportError only when a pulse module named by the
    text (as handed over, i.e. after corruption) cannot be found; the injected exception
    only when the named module is planned to raise."""
    import re

    e = S.plan["texts"][op["text"]]
    extra = []
    pm = e.get("pulses")
    if pm and pm["kind"] == "raises":
        extra.append("exc:SimPulseFault")
    text = S.text(op["text"])
    for m in re.finditer(r"from\s+(\.?)([A-Za-z_][A-Za-z0-9_.]*)?\s+usepulses", text):
        rel, name = m.group(1) == ".", (m.group(2) or "")
        top = name.split(".")[0]
        kind = None
        for e2 in S.plan["texts"]:
            if e2.get("pulses") and e2["pulses"]["mod"] == name:
                kind = e2["pulses"]["kind"]
        exists = bool(top) and (os.path.isfile(os.path.join(S.scratch, top + ".py")) or os.path.isdir(os.path.join(S.scratch, top)))
        findable = exists and (rel or S.scratch in sys.path or name in sys.modules)
        if not findable or kind in ("missing", "noattr", "dir_no_init") or name != top:
            extra.append("ImportError")
        elif rel and pm and pm.get("no_import_dir"):
            extra.append("ImportError")
    return tuple(extra)


def absolute_import_of_relative_module(S, text):
    """The text imports, by absolute name, a scratch module that other texts of this run
    import relatively and *successfully*.  A successful relative import leaves the module
    in sys.modules under its bare name (that is what imports do), so the outcome of the
    absolute import legitimately depends on the order - not demanded by the property.  A
    module whose import fails (kind 'raises') is not waived: that is F12."""
    import re

    # (a corruption may turn any import into a relative one, so every good scratch module
    # counts, whichever way the plan's own texts import it)
    rel_ok = {e["pulses"]["mod"] for e in S.plan["texts"] if e.get("pulses") and e["pulses"]["kind"] in ("good", "package")}
    out = []
    for m in re.finditer(r"from\s+([A-Za-z_][A-Za-z0-9_.]*)\s+usepulses", text):
        if m.group(1).split(".")[0] in rel_ok:
            out.append(m.group(1).split(".")[0])
    return out


def materialise_c16(plan):
    """Resolve 'corrupt' operations into raw text entries (deterministic from the plan):
    -> (texts, ops) with only parse / env_import operations."""
    texts = list(plan["texts"])
    ops = []
    rendered = {}

    def base_text(ti):
        if ti not in rendered:
            e = texts[ti]
            if "raw" in e:
                rendered[ti] = e["raw"]
            else:
                prog = e["prog"]
                if e.get("pulses"):
                    prog = dict(prog)
                    prog["pulses"] = ("." if e["pulses"]["relative"] else "") + e["pulses"]["mod"]
                rendered[ti] = progast.render(prog, progast.Layout(Tape(H(plan["run_seed"], "layout", ti)), e.get("noise", 0.0)))
                if e.get("crlf"):
                    rendered[ti] = rendered[ti].replace("\n", "\r\n")
        return rendered[ti]

    for op in plan["ops"]:
        if op["op"] == "corrupt":
            src = texts[op["text"]]
            raw, fd = corrupt(base_text(op["text"]), Tape(op["seed"]))
            ne = {"raw": raw, "anon": src.get("anon"), "exec": False, "ov": src.get("ov"), "fault": fd}
            if src.get("pulses"):
                ne["pulses"] = src["pulses"]
            texts.append(ne)
            ops.append({"op": "parse", "text": len(texts) - 1, "kw": op.get("kw", {}), "via": op.get("via", "string"), "fault": fd})
            if op.get("via") in ("run", "run_file") and op["seed"] % 3 == 0:
                ops[-1]["sampler"] = "numpy"
            if op.get("shared_be") and op.get("via") == "run":
                ops[-1]["shared_be"] = True
        else:
            ops.append(op)
    return texts, ops


def nested_parse(S, inner, j):
    """A parse (or a whole emulation) performed while another call is half-way
    (re-entrancy)."""
    from jaqalpaq.parser import parse_jaqal_string
    from jaqalpaq.run import run_jaqal_circuit

    txt = S.text(inner["text"])
    if inner.get("bad_seed") is not None:
        txt, _ = corrupt(txt, Tape(inner["bad_seed"]))
    kw = S.parse_kwargs(inner["text"], {})
    try:
        c = parse_jaqal_string(txt, **kw)
        if inner.get("run"):
            sN = seams.SimSampler(Tape(H(S.plan["run_seed"], "nested-sampler", j)), "faithful")
            oldN = seams.install_sampler(sN)
            try:
                run_jaqal_circuit(c)
            finally:
                seams.install_sampler(oldN)
            S.probe("nested_emulation_fired")
        S.nested_log.append((j, "nested_parse", "ok"))
    except BaseException as e:
        if isinstance(e, (seams.StepBudgetExceeded, seams.SimInterrupt)):
            raise
        S.nested_log.append((j, "nested_parse", type(e).__name__))
    S.fault("nested-call")


def process_state(S):
    """Interpreter-wide settings a library call has no business changing."""
    import warnings

    return {
        "recursionlimit": sys.getrecursionlimit(),
        "sys.path": tuple(sys.path),
        "cwd": os.getcwd(),
        "environ": hexdigest(sorted(os.environ.items())),
        "warnings.filters": len(warnings.filters),
        "trace": sys.gettrace() is None,
    }


def c_level_probe(S, op, j):
    """The step clock cannot see a loop inside C code (a regular expression that backtracks
    for ever on an unterminated comment, say).  This probe hands such a text to the parser
    in a forked child under a wall-clock guard that is four orders of magnitude above the
    normal cost; only a child that never answers is a verdict."""
    from jaqalpaq.parser import parse_jaqal_string
    from .runner import fork_call, HarnessError

    base = S.text(op["text"])
    t = Tape(op["seed"])
    at = t.randrange(len(base) + 1)
    tail = "".join(t.choice("ab c*x/\n;{}<>|[]0123456789") for _ in range(op["length"]))
    tail = tail.replace("*/", "* /")
    text = base[:at] + "/*" + tail + (base[at:].replace("*/", "* /") if t.chance(0.5) else "")
    kw = S.parse_kwargs(op["text"], {})
    kw.pop("import_path", None)
    kw["autoload_pulses"] = False

    def job():
        try:
            parse_jaqal_string(text, **{k: v for k, v in kw.items() if k != "inject_pulses"})
            return "ok"
        except BaseException as e:
            return type(e).__name__

    S.fault("text:unterminated-comment-probe")
    try:
        out = fork_call(job, wall_s=10.0)
        S.log.append((j, "probe", out))
        if out not in ("ok", "JaqalParseError", "JaqalError"):
            S.viol.add("C16", "only_jaqal_errors_escape", "exc:" + out, "probe", "unterminated comment of %d characters" % op["length"], op=j)
    except HarnessError:
        S.viol.add("C16", "terminates", "nonterm-in-C", "wall-clock guard", "a text with an unterminated block comment of %d characters did not come back within 10 s (normal cost: milliseconds)" % op["length"], op=j)
        S.viol[-1]["sweep_text"] = text


def exec_c16(plan, role="main", order=None):
    st = Streams(plan["run_seed"], recorded=plan.get("tapes"))
    plan2 = dict(plan)
    plan2["texts"], ops = materialise_c16(plan)
    plan2["ops_materialised"] = ops
    S = Session(plan2, st, role)
    S.twin_ref = {}
    S.rel_loaded = set()
    hist = []
    try:
        if plan.get("sweep"):
            sweep_c16(S, plan2, hist)
            rec = finish(S, plan, st, hist)
            rec["plan"] = dict(plan, tapes=st.dump())
            return rec
        idx = list(range(len(ops)))
        if order == "reversed":
            idx = idx[::-1]
        for j in idx:
            op = ops[j]
            if op["op"] == "env_import":
                if role == "main":
                    import importlib.util  # noqa: the event "some other library imported it"

                    S.probe("env_import_importlib_util")
                hist.append(("env",))
                continue
            if role == "twin" and (op.get("interrupt") is not None):
                pass  # the twin performs the clean call only
            if op.get("op") == "probe_unterminated":
                if role == "main":
                    c_level_probe(S, op, j)
                hist.append(("probe",))
                continue
            try:
                text = S.text(op["text"])
            except BaseException as e:
                raise
            # which good scratch modules are loaded right now (ground truth: sys.modules)
            S.rel_loaded_before = {e4["pulses"]["mod"] for e4 in plan2["texts"] if e4.get("pulses") and e4["pulses"]["mod"] in sys.modules}
            GS.VARIANT = op.get("variant", 0)
            fn = c16_callable(S, op, j)
            budget = budget_parse(text) + (5_000_000 if op.get("via") in ("run", "run_string", "run_file") else 0)
            for key in ("nested", "nested_pulse_top"):
                # a call nested inside this one spends its steps on this call's clock
                inner_ = (op.get(key) or {}).get("op") if key == "nested" else op.get(key)
                if inner_:
                    budget += budget_parse(S.text(inner_["text"])) + (5_000_000 if inner_.get("run") else 0)
            allowed = allowed_for(S, op)
            if op.get("fault"):
                S.fault("text:" + op["fault"]["kind"])
            if role == "main" and op.get("interrupt") is not None:
                # estimate of the call's line events (measured: 40-100 per character)
                k = 1 + int(op["interrupt"] * (100 if op.get("via") in ("run", "run_string", "run_file") else 60) * max(len(text), 8))
                # the abandoned call runs under other gate definitions than the calls that
                # follow it (same names, same arguments, other matrices)
                GS.VARIANT = (op.get("variant", 0) + 1 + (j % 3)) % 4
                oi = seams.outcome_of(fn, S.clock, budget, inject_at=k)
                GS.VARIANT = op.get("variant", 0)
                if oi["kind"] == "interrupt":
                    S.fault("interrupt")
                    S.probe("interrupt_landed_in:" + str(oi.get("where")).split("@")[-1])
                else:
                    check_type(S, j, op, oi, text, allowed)
                hist.append(("interrupted", oi["kind"]))
            if role == "main" and op.get("nested"):
                inner = op["nested"]["op"]
                at = op["nested"]["at"]
                count = [0]

                def cb(name, argv, inner=inner, at=at, count=count, j=j):
                    count[0] += 1
                    if count[0] - 1 == at:
                        GS.CALLBACK = None
                        nested_parse(S, inner, j)
                        S.probe("nested_in_unitary_fired")

                GS.CALLBACK = cb
            if role == "main" and op.get("nested_pulse_top"):
                inner = op["nested_pulse_top"]

                def cb2(modname, k, inner=inner, j=j):
                    GS.PULSE_TOP_CALLBACK = None
                    nested_parse(S, inner, j)
                    S.probe("nested_in_pulse_module_fired")

                GS.PULSE_TOP_CALLBACK = cb2
            ps_before = process_state(S)
            mods_before = set(sys.modules)
            o = seams.outcome_of(fn, S.clock, budget)
            GS.CALLBACK = None
            GS.PULSE_TOP_CALLBACK = None
            ps_after = process_state(S)
            own = [e5["pulses"]["mod"] for e5 in plan2["texts"] if e5.get("pulses")]
            gone = sorted(m for m in mods_before - set(sys.modules) if not any(m == pm or m.startswith(pm + ".") for pm in own))
            if gone:
                S.viol.add("C16", "leaves_nothing_behind", "modules_removed", "sys.modules", "a call that ended in %s removed %r from sys.modules" % (o["kind"], gone[:6]), op=j)
            if ps_after != ps_before:
                diff = [k for k in ps_before if ps_before[k] != ps_after[k]]
                S.viol.add("C16", "leaves_nothing_behind", "process_state_changed", ",".join(diff), "after a call that ended in %s: %s" % (o["kind"], "; ".join("%s: %r -> %r" % (k, ps_before[k], ps_after[k]) for k in diff)[:300]), op=j)
            check_type(S, j, op, o, text, allowed)
            d = S.outcome_digest(o)
            S.twin_ref[str(j)] = list(d)
            mods = absolute_import_of_relative_module(S, text)
            if mods:
                # had a successful relative import of that module already happened in this
                # lifetime?  (only then may the absolute import legitimately see it)
                flag = bool(set(mods) & S.rel_loaded_before)
                S.twin_waived = dict(getattr(S, "twin_waived", {}))
                S.twin_waived[str(j)] = flag
                S.probe("absolute_import_of_relatively_imported_module")
            if o["kind"] == "ok" and op.get("via") not in ("header", "header_file"):
                for e3 in [plan2["texts"][op["text"]]]:
                    pm3 = e3.get("pulses")
                    if pm3 and pm3["relative"] and pm3["kind"] in ("good", "package") and ("from ." + pm3["mod"]) in text:
                        S.rel_loaded.add(pm3["mod"])
            S.log.append((j, op.get("via"), d))
            hist.append((op.get("via"), o["kind"], (op.get("fault") or {}).get("kind", ""), bool(op.get("nested")), bool(op.get("nested_pulse_top"))))
            e = plan2["texts"][op["text"]]
            if e.get("pulses"):
                S.probe("pulse_" + e["pulses"]["kind"] + ("_relative" if e["pulses"]["relative"] else "_absolute"))
                if e["pulses"]["relative"] and "importlib.util" not in sys.modules:
                    S.probe("relative_import_without_importlib_util")
            if o["kind"] != "ok":
                S.probe("failed_call")
        rec = finish(S, plan, st, hist)
        rec["twin_ref"] = S.twin_ref
        rec["twin_waived"] = getattr(S, "twin_waived", {})
        rec["ops_materialised"] = [{k: v for k, v in op.items()} for op in ops]
    finally:
        S.close()
    return rec


def sweep_c16(S, plan2, hist):
    """Exhaustive per text: truncation at every offset and flips at every offset."""
    from jaqalpaq.parser import parse_jaqal_string

    sw = plan2["sweep"]
    if sw.get("kind") == "args":
        return sweep_args_c16(S, plan2, hist)
    text = S.text(0)
    kw0 = S.parse_kwargs(0, {})
    kws = [kw0]
    if sw.get("flags"):
        k2 = dict(kw0)
        k2.update(expand_macro=True, expand_let_map=True)
        kws.append(k2)
    t = Tape(sw["flip_seed"])
    n = 0
    for o in range(len(text) + 1):
        variants = [("truncate", text[:o])]
        if o < len(text):
            for _ in range(sw["flips"]):
                ch = t.choice(FLIP_PALETTE)
                variants.append(("flip", text[:o] + ch + text[o + 1 :]))
        for kind, txt in variants:
            for kw in kws if kind == "truncate" else kws[:1]:
                out = seams.outcome_of(lambda: parse_jaqal_string(txt, **kw), S.clock, budget_parse(txt))
                n += 1
                S.fault("sweep:" + kind)
                nv = len(S.viol)
                check_type(S, 0, {"text": 0}, out, txt)
                if len(S.viol) > nv:
                    S.viol[-1]["sweep_text"] = txt
                    S.viol[-1]["sweep_kw"] = {k: v for k, v in kw.items() if k.startswith("expand")}
                    if len(S.viol) > 6:
                        break
                S.log.append((kind, o, S.outcome_digest(out)))
    S.probe("sweep_texts")
    S.probe("sweep_parses", n)
    hist.append(("sweep", len(text)))


def arg_palette(prog):
    """Things of every kind the text declares, as call arguments."""
    pal = [["num", 0], ["num", 1], ["num", 2], ["num", -1], ["num", 99], ["num", 0.5], ["num", 1.0], ["raw", "1.0e999"]]
    reg = prog.get("reg")
    if reg:
        pal += [["id", reg[0]], ["item", reg[0], 0], ["item", reg[0], 99]]
    ints = [x[0] for x in prog["lets"] if isinstance(x[1], int)]
    flts = [x[0] for x in prog["lets"] if not isinstance(x[1], int)]
    for nm in ints[:1] + flts[:1]:
        pal.append(["id", nm])
        if reg:
            pal.append(["item", reg[0], nm])
    seen = set()
    for m in prog["maps"]:
        if m["kind"] in seen:
            continue
        seen.add(m["kind"])
        pal.append(["id", m["name"]])
        pal.append(["item", m["name"], 0])
    if prog["macros"]:
        pal.append(["id", prog["macros"][0]["name"]])
    pal.append(["id", "undeclared_name"])
    return pal


def sweep_args_c16(S, plan2, hist):
    """Exhaustive for one call statement: every argument position gets a thing of every
    kind the text declares (register, alias, single qubit, let, macro, numbers in and out of
    range); for calls with two or more arguments every pair of positions gets every pair.
    Each text is parsed plainly and with all expansions, and executed when it parses."""
    import itertools
    from jaqalpaq.parser import parse_jaqal_string
    from jaqalpaq.emulator import run_jaqal_circuit

    sw = plan2["sweep"]
    e = plan2["texts"][0]
    prog = copy.deepcopy(e["prog"])  # (the plan itself stays as planned)
    t = Tape(sw["pick"])
    mnames = {m["name"] for m in prog["macros"]}
    calls = [x for x in progast.all_statements(prog) if x["k"] == "gate" and x["args"]]
    mcalls = [x for x in calls if x["name"] in mnames]
    multi = [x for x in mcalls if len(x["args"]) >= 2]
    big = [m for m in prog["macros"] if len(m["params"]) >= 2]
    if big and not multi and prog.get("reg"):
        # no macro of two or more parameters is called: write such a call (its original
        # arguments do not matter, every position is about to be swept)
        def indexes_param_by_param(m):
            ps = set(m["params"])
            return any(x["k"] == "gate" and any(a[0] == "item" and a[1] in ps and a[2] in ps for a in x["args"]) for x in progast.all_statements({"macros": [], "body": [m["body"]], "lets": [], "maps": [], "reg": prog["reg"]}))

        pref = [m for m in big if indexes_param_by_param(m)]
        m_ = t.choice(pref or big)
        stmt = {"k": "gate", "name": m_["name"], "args": [["item", prog["reg"][0], 0] for _ in m_["params"]]}
        prog["body"].append({"k": "sub", "count": None, "body": [stmt]} if e.get("exec") else stmt)
        calls.append(stmt)
        mcalls.append(stmt)
        multi = [stmt]
        S.probe("sweep_args_call_written")
    if not calls:
        S.probe("sweep_args_no_call")
        hist.append(("sweep_args", 0))
        return
    target = t.choice(multi) if multi and t.chance(0.7) else t.choice(mcalls or calls)
    pal = arg_palette(prog)
    npos = len(target["args"])
    combos = [((i,), (a,)) for i in range(npos) for a in pal]
    pairs = list(itertools.combinations(range(npos), 2))
    # pairs: one representative per kind of thing
    rep, kinds = [], set()
    for a in pal:
        kd = (a[0], type(a[1]).__name__, a[1] if a[0] == "num" and a[1] in (1, 0.5, -1) else None, len(a))
        if a[0] == "id":
            kd = ("id", a[1])
        if a[0] == "raw" or (a[0] == "num" and a[1] in (0, 2, 99, 1.0)) or (a[0] == "item" and a[2] == 99) or kd in kinds:
            continue
        kinds.add(kd)
        rep.append(a)
    if len(pairs) > 2:
        pairs = t.sample(pairs, 2)
    for i, k in pairs:
        combos += [((i, k), (a, b)) for a in rep for b in rep]
    orig = [list(a) for a in target["args"]]
    kw0 = S.parse_kwargs(0, {})
    k2 = dict(kw0)
    k2.update(expand_macro=True, expand_let=True, expand_let_map=True)
    n = 0
    for pos, vals in combos:
        target["args"][:] = [list(a) for a in orig]
        for i, a in zip(pos, vals):
            target["args"][i] = list(a)
        txt = progast.render(prog, progast.Layout(None, 0.0))
        for kw in (kw0, k2):
            holder = {}

            def call(kw=kw, txt=txt, holder=holder):
                holder["c"] = parse_jaqal_string(txt, **kw)
                return holder["c"]

            out = seams.outcome_of(call, S.clock, budget_parse(txt))
            n += 1
            S.fault("sweep:args")
            nv = len(S.viol)
            check_type(S, 0, {"text": 0}, out, txt)
            if out["kind"] == "ok" and kw is kw0 and e.get("exec") and not big_literal(txt):
                smp = seams.SimSampler(Tape(H(S.plan["run_seed"], "sampler", n)), "numpy" if n % 4 == 0 else "faithful")
                if n % 4 == 0:
                    import numpy

                    numpy.random.seed(H(S.plan["run_seed"], "numpy", n) % (2**32))
                old_smp = seams.install_sampler(smp)
                try:
                    out2 = seams.outcome_of(lambda: run_jaqal_circuit(holder["c"]), S.clock, budget_parse(txt) + 5_000_000)
                finally:
                    seams.install_sampler(old_smp)
                check_type(S, 0, {"text": 0, "via": "run"}, out2, txt)
                S.log.append(("args-run", pos, S.outcome_digest(out2)))
                n += 1
            if len(S.viol) > nv:
                S.viol[-1]["sweep_text"] = txt
                S.viol[-1]["sweep_kw"] = {k: v for k, v in kw.items() if k.startswith("expand")}
            S.log.append(("args", pos, S.outcome_digest(out)))
        if len(S.viol) > 6:
            break
    target["args"][:] = orig
    S.probe("sweep_args_texts")
    S.probe("sweep_args_calls", n)
    if len(pairs):
        S.probe("sweep_args_pairs")
    hist.append(("sweep_args", len(combos)))


def twin_many(plans):
    """A second process lifetime: the same parse-like operations in reversed order."""
    out = [None] * len(plans)
    # (the runs of the chunk in reversed order too: what one run leaves behind for the next)
    for n in reversed(range(len(plans))):
        plan = plans[n]
        if plan["prop"] != "C16" or plan.get("sweep"):
            continue
        rec = exec_c16(plan, role="twin", order="reversed")
        out[n] = {"twin_ref": rec["twin_ref"], "twin_waived": rec.get("twin_waived") or {}, "violations": rec["violations"]}
    return out


def compare_twin(rec, twin):
    if not twin or rec.get("twin_ref") is None:
        return
    a, b = rec["twin_ref"], twin["twin_ref"]
    wm, wt = rec.get("twin_waived") or {}, twin.get("twin_waived") or {}
    for j in sorted(a, key=int):
        if j in wm and j in wt and wm[j] != wt[j]:
            # in exactly one lifetime a successful relative import of the module preceded
            # this absolute import: the difference is what Python imports do
            continue
        if j in b and a[j] != b[j]:
            rec.setdefault("violations", []).append(
                {
                    "prop": "C16",
                    "oracle": "same_result_whatever_came_before",
                    "cls": "history_dependent",
                    "where": "%s/%s" % (a[j][0], b[j][0]),
                    "detail": "operation %s: outcome %r in this history, %r in a process lifetime with the operations in another order" % (j, a[j], b[j]),
                    "op": int(j),
                }
            )
            break


# ====================================================================== C10

C10_TOKENS = ["M", "Mp", "L", "S", "A"]


def plan_c10(run_seed):
    st = Streams(run_seed)
    t = st.get("ops")
    profile = "general" if t.chance(0.65) else "exec"
    force = {"p_lets": 0.9, "p_let_use": 0.6, "p_macros": 0.9, "p_override": 0.7, "p_call": 0.3} if t.chance(0.35) else None
    if force is None and t.chance(0.2):
        # rich in names that can capture one another: a register sized by a let, aliases of
        # aliases, macro parameters named like registers, aliases and lets
        force = {"p_lets": 0.9, "p_letsize": 0.7, "p_maps": 0.8, "p_alias_use": 0.8, "p_macros": 0.9, "p_shadow": 0.7, "p_call": 0.3, "p_single": 0.5}
    prog, ov, cfg = make_program(st, "t0", profile, "C10", force)
    # any override dictionary over the declared lets (same type), not only the validated one
    O = dict(ov or {})
    if t.chance(0.3):
        for name, v in prog["lets"]:
            if t.chance(0.4):
                O[name] = t.choice(gen.INT_VALUES) if isinstance(v, int) else t.choice(gen.FLOAT_VALUES)
                if isinstance(v, int) and t.chance(0.3):
                    O[name] = float(O[name])  # an integer given as a float (2.0): "any dictionary"
    seqs = []
    for _ in range(t.randint(2, 4)):
        if seqs and t.chance(0.6):
            base = list(t.choice(seqs))
            t.shuffle(base)
            if t.chance(0.4) and base:
                base.insert(t.randrange(len(base) + 1), t.choice(base))
            seqs.append(base)
        else:
            seqs.append([t.choice(C10_TOKENS) for _ in range(t.randint(1, 6))])
    # every pair of passes in both orders
    a_, b_ = t.sample(["M", "L", "S", "A"], 2)
    seqs.append([a_, b_])
    seqs.append([b_, a_])
    if t.chance(0.5):
        seqs.append(["M", "L"])
        seqs.append(["L", "M"])
    if t.chance(0.5):
        perm = ["M", "L", "S", "A"]
        t.shuffle(perm)
        seqs.append(perm)
        perm2 = list(perm)
        t.shuffle(perm2)
        seqs.append(perm2)
    mnames_ = {m["name"] for m in prog["macros"]}
    anames_ = {m["name"] for m in prog["maps"]}
    if any(s_["k"] == "gate" and s_["name"] in mnames_ and any(a_[0] == "id" and a_[1] in anames_ for a_ in s_["args"]) for s_ in progast.all_statements(prog)) and t.chance(0.6):
        # an alias handed whole to a macro: alias fill-in before and after macro expansion
        # (before: usually not applicable, and then it must say so)
        seqs.append(["A", "M"])
        seqs.append(["M", "A"])
    e = {"prog": prog, "noise": cfg["layout_noise"], "anon": cfg["anon"], "exec": profile == "exec", "ov": ov}
    # some sequences substitute under another dictionary O2 (all sequences start from the
    # one shared parse, so anything a pass keeps between calls is exposed)
    O2 = None
    seq_ov = [0] * len(seqs)
    if prog["lets"] and t.chance(0.5):
        O2 = {}
        for name, v in prog["lets"]:
            if t.chance(0.6):
                O2[name] = t.choice(gen.INT_VALUES) if (isinstance(v, int) and not t.chance(0.2)) else t.choice(gen.FLOAT_VALUES)
                if isinstance(v, int) and isinstance(O2[name], int) and t.chance(0.25):
                    O2[name] = float(O2[name])
        if O2 == O:
            O2 = {}
        seq_ov = [1 if t.chance(0.4) else 0 for _ in seqs]
    # the values of a dictionary as a caller computes them: numpy scalars (numpy.float64 is a
    # float), now and then a bool (which is an int) - "any override dictionary"
    ov_types = [{}, {}]
    for di, D_ in enumerate((O, O2)):
        if D_ and t.chance(0.25):
            for name in sorted(D_):
                if t.chance(0.6):
                    v_ = D_[name]
                    if isinstance(v_, float):
                        ov_types[di][name] = t.choice(["np.float64", "np.float64", "np.float32"])
                    elif v_ in (0, 1) and t.chance(0.2):
                        ov_types[di][name] = "bool"
                    else:
                        ov_types[di][name] = t.choice(["np.int64", "np.int64", "np.int32"])
    return {"engine": "E1", "prop": "C10", "run_seed": run_seed, "texts": [e], "ops": [], "override": O, "override2": O2, "seq_override": seq_ov, "sequences": seqs, "override_types": ov_types, "tapes": None}


def token_kind(tok):
    return "M" if tok in ("M", "Mp") else tok


def exec_c10(plan):
    from jaqalpaq.parser import parse_jaqal_string
    from jaqalpaq.generator import generate_jaqal_program
    from jaqalpaq.error import JaqalError

    st = Streams(plan["run_seed"], recorded=plan.get("tapes"))
    S = Session(plan, st)
    hist = []
    try:
        O = dict(plan["override"] or {})
        def typed(D_, tags):
            if not tags:
                return D_
            import numpy

            conv = {"np.float64": numpy.float64, "np.float32": numpy.float32, "np.int64": numpy.int64, "np.int32": numpy.int32, "bool": bool}
            S.probe("dictionary_with_numpy_or_bool_values")
            return {k: (conv[tags[k]](v) if k in tags else v) for k, v in D_.items()}

        tags_ = plan.get("override_types") or [{}, {}]
        O = typed(O, tags_[0])
        OVS = [O, typed(dict(plan["override2"]), tags_[1]) if plan.get("override2") is not None else O]
        S.share_override_objects = True
        ovs_before = [dict(x) for x in OVS]
        seq_ov = plan.get("seq_override") or [0] * len(plan["sequences"])
        text = S.text(0)
        kw0 = S.parse_kwargs(0, {})
        o0 = seams.outcome_of(lambda: parse_jaqal_string(text, **kw0), S.clock, budget_parse(text))
        if o0["kind"] != "ok":
            S.probe("start_not_parsed")
            hist.append(("noparse", o0["kind"]))
            return finish(S, plan, st, hist)
        c0 = o0["value"]
        BUD = 5_000_000
        e0 = plan["texts"][0]
        strict, blocks_a = False, True
        if e0.get("exec") and "prog" in e0:
            try:
                R0 = progast.resolve(e0["prog"], e0.get("ov") or {}, executable=True)
                strict = True
                blocks_a = bool(R0.features & {"register_macro_arg", "param_indexing", "param_hides_register"})
            except progast.Invalid:
                strict = False

        cur = [O]

        def apply(tok, c):
            name = {"M": "expand_macros", "Mp": "expand_macros_preserve", "L": "fill_in_let_O", "S": "expand_subcircuits", "A": "fill_in_map"}[tok]
            return seams.outcome_of(S.pass_callable(name, cur[0], c), S.clock, BUD)

        def views(c, env):
            """three views of 'the same circuit' besides the library's own =="""
            try:
                m = extract.meaning(c, env, with_counts=True)
            except extract.Unresolvable as e:
                return None
            return (m, extract.header_view(c, env))

        _start_ok = {}

        def start_resolvable(env):
            key = hexdigest(sorted((env or {}).items()))
            if key not in _start_ok:
                try:
                    extract.meaning(c0, env, with_counts=True)
                    _start_ok[key] = True
                except extract.Unresolvable:
                    _start_ok[key] = False
            return _start_ok[key]

        def legality(c, label, j):
            og = seams.outcome_of(lambda: generate_jaqal_program(c), S.clock, BUD)
            if og["kind"] != "ok":
                S.viol.add("C10", "result_is_legal_circuit", "generate:" + og["kind"], og.get("where", ""), "after %s: %s" % (label, og.get("exc")), op=j)
                return
            txt = og["value"]
            if not isinstance(txt, str) or "None" in txt.split():
                S.viol.add("C10", "result_is_legal_circuit", "generate:bad_text", "", "after %s" % label, op=j)
                return
            kw = dict(kw0)
            orp = seams.outcome_of(lambda: parse_jaqal_string(txt, **kw), S.clock, budget_parse(txt))
            if orp["kind"] != "ok":
                S.viol.add("C10", "result_is_legal_circuit", "reparse:" + orp["kind"], orp.get("where", ""), "after %s the generated text is rejected: %s\n%s" % (label, orp.get("exc"), txt[:300]), op=j)
                return
            # the dictionary is an argument of fill_in_let, not a property of the circuit:
            # before any let substitution a circuit means what its declared values say
            # (fill_in_map alone resolves indices with the declared values - evaluating its
            # result under a dictionary no pass was given is F15's question, not legality's)
            env_ = cur[0] if "L" in label else {}
            try:
                m1 = extract.meaning(c, env_, with_counts=True)
                m2 = extract.meaning(orp["value"], env_, with_counts=True)
            except extract.Unresolvable as ex_:
                S.probe("legality_unresolvable")
                if start_resolvable(env_):
                    # the circuit the passes started from has a meaning under this dictionary;
                    # a pass that succeeded cannot have produced one that has none (an
                    # unbound parameter at top level, say)
                    S.viol.add("C10", "result_is_legal_circuit", "no_meaning", "", "after %s the circuit (or its re-parsed text) has no meaning although the start circuit has one: %s" % (label, ex_), op=j)
                return
            if m1 != m2:
                S.viol.add("C10", "result_is_legal_circuit", "mismatch", "", "after %s the re-parsed text means something else" % label, op=j)
            S.probe("legality_checked")

        finals = []
        for si, seq in enumerate(plan["sequences"]):
            cur[0] = OVS[seq_ov[si] if si < len(seq_ov) else 0]
            c = c0
            done = []
            ok = True
            for tok in seq:
                o = apply(tok, c)
                label = "".join(done + [tok])
                if o["kind"] == "JaqalError" or o["kind"] == "JaqalParseError":
                    # on a valid executable program under a validated dictionary every pass
                    # is applicable in every order, except fill_in_map before macro
                    # expansion when macros take registers or index with parameters
                    # (expansion that preserves the definitions leaves them in the circuit)
                    a_excused = tok == "A" and blocks_a and "M" not in done
                    # (a dictionary that gives a let a bool is no validated dictionary: the
                    # library is right to refuse it)
                    if strict and cur[0] == (e0.get("ov") or {}) and not a_excused and not any(isinstance(v_, bool) for v_ in cur[0].values()):
                        S.viol.add("C10", "pass_applicable_on_valid_program", o["kind"], o.get("where", ""), "sequence %s on a valid program: %s" % (label, o.get("exc")), op=si)
                    S.probe("sequence_not_applicable")
                    ok = False
                    break
                if o["kind"] != "ok":
                    S.viol.add("C10", "pass_applicable_or_jaqalerror", o["kind"], o.get("where", ""), "sequence %s: %s" % (label, o.get("exc")), op=si)
                    ok = False
                    break
                d = o["value"]
                done.append(tok)
                # idempotence
                o2 = apply(tok, d)
                if o2["kind"] != "ok":
                    S.viol.add("C10", "idempotent", "second_application:" + o2["kind"], o2.get("where", ""), "%s then %s again: %s" % (label, tok, o2.get("exc")), op=si)
                else:
                    dd = o2["value"]
                    va, vb = views(d, cur[0]), views(dd, cur[0])
                    try:
                        lib_eq = bool(d == dd) and bool(dd == d)
                    except BaseException as e:
                        lib_eq = None
                    if lib_eq is False:
                        S.viol.add("C10", "idempotent", "not_equal", "", "%s: applying %s twice != once (library ==)" % (label, tok), op=si)
                    elif va is not None and vb is not None and va != vb:
                        S.viol.add("C10", "idempotent", "mismatch", "", "%s: applying %s twice changes meaning or header" % (label, tok), op=si)
                    S.probe("idempotence_checked")
                legality(d, label, si)
                c = d
            hist.append((tuple(seq), ok))
            if ok:
                finals.append((seq, c, seq_ov[si] if si < len(seq_ov) else 0))
        # commute: same set of pass kinds => same meaning
        groups = {}
        for seq, c, ovi in finals:
            groups.setdefault((frozenset(token_kind(x) for x in seq), ovi if OVS[0] != OVS[1] else 0), []).append((seq, c))
        for (kinds, ovi), items in groups.items():
            if len(items) < 2:
                continue
            ref = None
            for seq, c in items:
                try:
                    m = extract.meaning(c, OVS[ovi], with_counts=("S" not in kinds))
                except extract.Unresolvable:
                    S.probe("commute_unresolvable")
                    continue
                if ref is None:
                    ref = (seq, m)
                elif m != ref[1]:
                    S.viol.add("C10", "passes_commute", "mismatch", "", "orders %s and %s give different meanings" % ("".join(ref[0]), "".join(seq)), op=None)
                    S.viol[-1]["orders"] = ["".join(ref[0]), "".join(seq)]
                    S.viol[-1]["override_used"] = {k_: (v_ if type(v_) in (int, float) else (int(v_) if isinstance(v_, (bool, int)) or getattr(getattr(v_, "dtype", None), "kind", "") in "iu" else float(v_))) for k_, v_ in OVS[ovi].items()}
                    break
                else:
                    S.probe("commute_compared")
        # parser flags == explicit passes
        flagsets = [({"expand_macro": True}, ["Mp"]), ({"expand_let": True}, ["L"]), ({"expand_let_map": True}, ["L", "A"]), ({"expand_macro": True, "expand_let": True, "expand_let_map": True}, ["Mp", "L", "A"])]
        for ovi, (flags, toks) in [(i, ft) for i in ((0, 1) if OVS[0] != OVS[1] else (0,)) for ft in flagsets]:
            cur[0] = OVS[ovi]
            O = OVS[ovi]
            kw = dict(kw0)
            kw.update(flags)
            if "expand_let" in flags or "expand_let_map" in flags:
                kw["override_dict"] = dict(O)
            of = seams.outcome_of(lambda: parse_jaqal_string(text, **kw), S.clock, BUD)
            c = c0
            op_kind = "ok"
            for tok in toks:
                o = apply(tok, c)
                if o["kind"] != "ok":
                    op_kind = o["kind"]
                    break
                c = o["value"]
            if of["kind"] != op_kind and not (of["kind"] in ("JaqalError", "JaqalParseError") and op_kind in ("JaqalError", "JaqalParseError")):
                S.viol.add("C10", "parser_flags_equal_passes", "%s/%s" % (of["kind"], op_kind), of.get("where", "") or "", "flags %r: parser %s, passes %s" % (sorted(flags), of.get("exc"), op_kind), op=None)
            elif of["kind"] == "ok":
                va, vb = views(of["value"], O), views(c, O)
                try:
                    lib_eq = bool(of["value"] == c)
                except BaseException:
                    lib_eq = None
                if lib_eq is False or (va is not None and vb is not None and va != vb):
                    S.viol.add("C10", "parser_flags_equal_passes", "mismatch", "", "flags %r differ from passes %s" % (sorted(flags), "".join(toks)), op=None)
                S.probe("flags_compared")
        if [dict(x) for x in OVS] != ovs_before:
            S.viol.add("C10", "override_dictionary_unchanged", "mutated", "fill_in_let", "the caller's override dictionary was modified: %r -> %r" % (ovs_before, OVS), op=None)
        S.log.append(hexdigest([(tuple(s), snapshot.digest(c)) for s, c, _ in finals]))
        rec = finish(S, plan, st, hist)
    finally:
        S.close()
    return rec


# ====================================================================== shrinking / evidence

INLINE_TWIN = False
_execute_inner = execute


def execute(plan):  # noqa: F811
    if INLINE_TWIN and plan["prop"] == "C16" and not plan.get("sweep"):
        from .runner import fork_call

        twin = fork_call(lambda: twin_many([plan])[0])
        rec = _execute_inner(plan)
        compare_twin(rec, twin)
        return rec
    return _execute_inner(plan)


def candidates(plan):
    from .shrink import ast_candidates

    def variant(**kw):
        p = copy.deepcopy(plan)
        p.update(kw)
        p["tapes"] = None
        return p

    prop = plan["prop"]
    if prop == "C10":
        seqs = plan["sequences"]
        for i in range(len(seqs)):
            if len(seqs) > 1:
                yield variant(sequences=seqs[:i] + seqs[i + 1 :])
        for i, s in enumerate(seqs):
            for k in range(len(s)):
                if len(s) > 1:
                    yield variant(sequences=seqs[:i] + [s[:k] + s[k + 1 :]] + seqs[i + 1 :])
        for k in list(plan["override"] or {}):
            ov = dict(plan["override"])
            del ov[k]
            yield variant(override=ov)
        if plan.get("override2") is not None:
            yield variant(override2=None, seq_override=[0] * len(seqs))
            for k in list(plan["override2"]):
                ov = dict(plan["override2"])
                del ov[k]
                yield variant(override2=ov)
    else:
        ops = plan["ops"]
        n = len(ops)
        if n > 3:
            yield variant(ops=ops[: n // 2])
            yield variant(ops=ops[n // 2 :])
        for i in range(n - 1, -1, -1):
            yield variant(ops=ops[:i] + ops[i + 1 :])
        for i, op in enumerate(ops):
            for key in ("interrupt", "nested", "nested_pulse_top"):
                if op.get(key) is not None:
                    o2 = {k: v for k, v in op.items() if k != key}
                    yield variant(ops=ops[:i] + [o2] + ops[i + 1 :])
            if op.get("kw"):
                yield variant(ops=ops[:i] + [dict(op, kw={})] + ops[i + 1 :])
            if op.get("via") not in (None, "string", "run", "run_string"):
                yield variant(ops=ops[:i] + [dict(op, via="string")] + ops[i + 1 :])
    # simplify the texts (programs); raw texts by halving / line removal
    for ti, e in enumerate(plan["texts"]):
        if e.get("noise"):
            t2 = copy.deepcopy(plan["texts"])
            t2[ti]["noise"] = 0.0
            yield variant(texts=t2)
        if e.get("deep"):
            # a deep text shrinks by its depth, not by lines
            dd = e["deep"]
            for d2 in (dd["d"] // 2, dd["d"] * 3 // 4, dd["d"] - 10, dd["d"] - 1):
                if 1 <= d2 < dd["d"]:
                    t2 = copy.deepcopy(plan["texts"])
                    t2[ti]["deep"] = dict(dd, d=d2)
                    t2[ti]["raw"] = deep_text(dd["kind"], d2, dd["exec"])
                    yield variant(texts=t2)
            continue
        if "raw" in e:
            raw = e["raw"]
            lines = raw.split("\n")
            for i in range(len(lines)):
                t2 = copy.deepcopy(plan["texts"])
                t2[ti]["raw"] = "\n".join(lines[:i] + lines[i + 1 :])
                yield variant(texts=t2)
            continue
        for prog in ast_candidates(e["prog"]) if e["prog"].get("reg") else []:
            try:
                progast.resolve(prog, None, executable=False, anon=True)
            except progast.Invalid:
                continue
            t2 = copy.deepcopy(plan["texts"])
            t2[ti]["prog"] = prog
            if prop == "C10":
                ov = {k: v for k, v in (plan["override"] or {}).items() if any(k == nm for nm, _ in prog["lets"])}
                yield variant(texts=t2, override=ov)
            else:
                yield variant(texts=t2)


RULE = {
    "C10": "One evaluation = one seeded history of passes: a generated program is parsed once and 2-6 sequences (orders and repetitions, length 1-6) over {expand_macros(+-preserve), fill_in_let(O), expand_subcircuits, fill_in_map} are applied to the shared start circuit; sequences with the same set of pass kinds are compared through the meaning extractor, every pass is applied twice (idempotence in three views), every intermediate circuit is generated and re-parsed, parser flags are compared with explicit passes. Distinct = distinct history digest (sequence set + outcome); non-trivial = at least one sequence of length >= 2 completed.",
    "C11": "(The last run of every chunk of 12 is executed once more alone in a new process: its operation log must not depend on the runs before it; run operations may share one backend object.) One evaluation = one seeded session history of 4-20 library calls (parse via string/file/S-expression, 8 passes, 7 analyses incl. emulation and output parsing, drops) on a pool of up to 6 shared objects, with cancellation at line event k on a fraction of the operations and nested calls fired from inside ideal_unitary; after every operation every live object and the gate table are re-snapshotted (identity-aware) and the outcome is compared with the same operation on a freshly built copy. Distinct = distinct history digest; non-trivial = the history contains a fault or an operation on a derived object.",
    "C16": "One evaluation = one seeded session history of 4-16 parse/run calls over up to 3 generated texts and their corrupted variants (truncate, flip, dup, drop, token delete/duplicate/swap, torn tail), pulse-module faults (missing, no attribute, raising top level, package), cancellation at line event k, nested parses at the two re-entrancy points, and the event 'someone imported importlib.util'; a second process lifetime executes the same calls in reversed order and every call's outcome digest must agree. About one run in twelve is an exhaustive sweep of one text: truncation at every offset and two flips per offset, or (three sweeps in ten) one call statement with every argument position filled by a thing of every kind the text declares and every pair of positions by every pair of kinds, parsed plainly, with all expansions, and executed; a third of the executing calls use numpy's own seeded sampler instead of the simulator's; one run in twenty carries a text whose only unusual feature is depth (40-520 nested loops / alternating blocks / macros calling macros, alias chains of 24-45). Run operations may share one backend object per process lifetime; the last run of every chunk is executed once more alone in a new process and its operation log must agree. Distinct = distinct history digest; non-trivial = at least one fault fired or a call failed.",
}
ASSUMPTIONS = [
    "the snapshot R4, the meaning extractor X and the generator/resolver R1 are trusted",
    "the reference for 'unaffected by what came before' is a second process lifetime with the operations in reversed order (each chunk of runs starts from a zygote that has never parsed anything); a fresh-interpreter sample is compared by the determinism self-test",
    "pre-emptive threads are not simulated: the library documents no thread-safety and no property mentions threads; interleaving is explored as nesting at the two re-entrancy points and as operation order",
    "not demanded, hence not injected: OSError from open(), undecodable bytes, non-existent import_path, hardware output lists of non-matching length",
    "depth (nested loops and blocks, alias chains, macro chains up to 520 levels) is injected in C16 only: hitting the interpreter's recursion limit must surface as JaqalError (F41); the harness's own snapshot gives up on values nested deeper than it can walk and compares them by outcome kind only",
    "sampling, not enumeration, except the per-text truncation/flip sweep which is exhaustive for the swept text",
]
EXPECTED_PROBES = {
    "C10": ["idempotence_checked", "legality_checked", "commute_compared", "flags_compared", "sequence_not_applicable"],
    "C11": ["op_failed_then_object_reused", "result_kept_alive", "nested_op_fired", "interrupt_landed_in:expand_macros", "interrupt_landed_in:run"],
    "C16": ["failed_call", "sweep_texts", "pulse_missing_relative", "pulse_raises_relative", "nested_in_unitary_fired", "nested_in_pulse_module_fired", "relative_import_without_importlib_util", "env_import_importlib_util"],
}


def sample_view(r):
    p = r["plan"]
    return {
        "run_seed": r["seed"],
        "first_text": r.get("text"),
        "operations": p.get("ops") or p.get("sequences") or p.get("sweep"),
        "override": p.get("override"),
        "event_log": (r.get("log") or [])[:30],
        "violations": r.get("violations"),
    }



def describe(plan):
    """Human-readable rendering of a (minimised) plan for the check's report."""
    out = []
    for ti, e in enumerate(plan.get("texts") or []):
        if "raw" in e:
            txt = e["raw"]
        else:
            prog = e["prog"]
            if e.get("pulses"):
                prog = dict(prog, pulses=("." if e["pulses"]["relative"] else "") + e["pulses"]["mod"])
            try:
                txt = progast.render(prog, progast.Layout(Tape(H(plan["run_seed"], "layout", ti)), e.get("noise", 0.0)))
            except Exception as ex:
                txt = "<unrenderable: %s>" % ex
        extra = ""
        if e.get("pulses"):
            extra = "  [pulse module %s: %s]" % (e["pulses"]["mod"], e["pulses"]["kind"])
        out.append("text %d%s:" % (ti, extra))
        out.extend("    " + l for l in txt.split("\n")[:40])
    if plan["prop"] == "C10":
        out.append("override: %r   second override: %r (used by sequences %r)" % (plan.get("override"), plan.get("override2"), [i for i, x in enumerate(plan.get("seq_override") or []) if x]))
        for i, sq in enumerate(plan.get("sequences") or []):
            out.append("sequence %d: %s" % (i, " ".join(sq)))
    elif plan.get("sweep"):
        out.append("sweep: truncation at every offset, %d flips per offset" % plan["sweep"]["flips"])
    else:
        nid = 0
        for j, op in enumerate(plan.get("ops") or []):
            d = {k: v for k, v in op.items() if k not in ("op",) and v not in (None, {}, [])}
            tag = ""
            if op["op"] == "parse" or (op["op"] == "pass") or (op["op"] == "analyse" and op.get("name") == "run"):
                if plan["prop"] == "C11":
                    tag = " -> object %d" % nid
                    nid += 1
            out.append("op %d: %s %s%s" % (j, op["op"], json_compact(d), tag))
    return "\n".join(out)


def json_compact(d):
    import json

    return json.dumps(d, sort_keys=True, separators=(",", ":"))[:200]
