"""Sensitivity self-test: small source mutations applied to a scratch copy of the tree
(never to /repo), each expected to be caught (exit 1) by the quick check of the property
it targets; plus the unmutated copy, expected clean (exit 0).

  vcheck selftest mutants [--only NAME_SUBSTRING] [--runs N] [--list]
"""
import json
import os
import shutil
import subprocess
import sys
import tempfile
import time

HERE = os.path.dirname(os.path.realpath(__file__))
VERIF = os.path.dirname(HERE)
REPO = "/repo"

# (name, property, relative file under src/jaqalpaq, old, new)
MUTANTS = [
    # ---- C03
    ("c03_transpose_dsub", "C03", "emulator/unitary.py", "dsub[dsub_row, dsub_col]", "dsub[dsub_col, dsub_row]"),
    ("c03_reversed_qind_inner", "C03", "emulator/unitary.py", "                    for j_k in qind:", "                    for j_k in reversed(qind):"),
    ("c03_skip_vec_clear", "C03", "emulator/unitary.py", "            vec[:] = 0\n", "            vec[:] = 0 if len(qind) < 3 else vec\n"),
    ("c03_alias_index", "C03", "emulator/unitary.py", "qind.append(val.resolve_qubit()[1])", "qind.append(val.alias_index)"),
    # ---- C08
    ("c08_index_before_process", "C08", "core/algorithm/walkers.py", "                self.process_trace()\n                self.index += 1\n", "                self.index += 1\n                self.process_trace()\n                \n"),
    ("c08_zero_loop_no_skip", "C08", "core/algorithm/walkers.py", "        if loop.iterations <= 0:", "        if loop.iterations < 0:"),
    ("c08_loop_plus_one_when_nested", "C08", "core/algorithm/walkers.py", "        for n in range(loop.iterations):\n            # Restore the walk status", "        for n in range(loop.iterations + (1 if len(address) > 2 else 0)):\n            # Restore the walk status"),
    ("c08_readout_prev_subcircuit", "C08", "emulator/backend.py", "        subcircuit = self.subcircuits[self.index]\n        nxt = choice", "        subcircuit = self.subcircuits[self.index - (1 if self.readout_index > 3 else 0)]\n        nxt = choice"),
    ("c08_output_no_expand_sub", "C08", "core/result.py", "expand_macros(fill_in_let(expand_subcircuits(circuit)))", "expand_macros(fill_in_let(circuit))"),
    # ---- C09
    ("c09_measure_first", "C09", "core/algorithm/expand_subcircuits.py", "            self.prepare_def(),\n            *(self.visit(stmt) for stmt in block.statements),\n            self.measure_def(),", "            self.measure_def(),\n            *(self.visit(stmt) for stmt in block.statements),\n            self.prepare_def(),"),
    ("c09_ignore_native_defs", "C09", "core/algorithm/expand_subcircuits.py", "        return circuit.native_gates[name]", "        return GateDefinition(name)"),
    ("c09_drop_usepulses", "C09", "core/algorithm/expand_subcircuits.py", "        new_circuit.usepulses.extend(circuit.usepulses)\n", ""),
    ("c09_leave_macro_subcircuits", "C09", "core/algorithm/expand_subcircuits.py", "        return Macro(macro.name, macro.parameters, self.visit(macro.body))", "        return macro"),
    # ---- C10
    ("c10_loop_count_param_not_substituted", "C10", "core/algorithm/expand_macros.py", "        return LoopStatement(\n            iterations=self.visit(loop.iterations),", "        return LoopStatement(\n            iterations=loop.iterations,"),
    ("c10_parser_flag_no_preserve", "C10", "parser/parser.py", "circuit = expand_macros(circuit, preserve_definitions=True)", "circuit = expand_macros(circuit, preserve_definitions=False)"),
    ("c10_fill_in_let_drops_subcircuit", "C10", "core/algorithm/fill_in_let.py", "        if block.subcircuit:\n            return [\n                \"subcircuit_block\",\n                self.visit(block.iterations),\n                *[self.visit(stmt) for stmt in block.statements],\n            ]\n", ""),
    ("c10_float_format", "C10", "generator/generator.py", "        if exp and \".\" not in mantissa:", "        if False:"),
    # ---- C11
    ("c11_insert_prepare_in_place", "C11", "core/algorithm/expand_subcircuits.py", "        return BlockStatement(parallel=block.parallel, statements=statements)\n\n    def process_non", "        block.statements.insert(0, statements[0]) if len(block.statements) > 2 else None\n        return BlockStatement(parallel=block.parallel, statements=statements)\n\n    def process_non"),
    ("c11_gate_replacer_writes_parameters", "C11", "core/algorithm/expand_macros.py", "        new_gate = GateStatement(gate.gate_def, new_parameters)", "        gate.parameters.update(new_parameters)\n        new_gate = GateStatement(gate.gate_def, new_parameters)"),
    ("c11_cache_bounding_gate", "C11", "core/algorithm/expand_subcircuits.py", "    return GateDefinition(name)\n\n\nclass", "    circuit.native_gates[name] = GateDefinition(name)\n    return circuit.native_gates[name]\n\n\nclass"),
    ("c11_block_normalizer_in_place", "C11", "core/algorithm/unit_timing.py", "        new_block = BlockStatement(statements=new_statements)", "        obj.statements[:] = new_statements if obj.parallel else obj.statements\n        new_block = BlockStatement(statements=new_statements)"),
    ("c11_temp_mutation_no_finally", "C11", "core/algorithm/expand_macros.py", "        self.macros = circuit.macros\n        new_circuit = Circuit(native_gates=circuit.native_gates)", "        self.macros = circuit.macros\n        saved = list(circuit.body.statements)\n        circuit.body.statements.append(None)\n        circuit.body.statements.pop()\n        del circuit.body.statements[:]\n        circuit.body.statements.extend(saved[:1])\n        tmp = [self.visit(s) for s in saved]\n        circuit.body.statements[:] = saved\n        new_circuit = Circuit(native_gates=circuit.native_gates)"),
    # ---- C15
    ("c15_as_str_not_reversed", "C15", "core/result.py", "return f\"{self._result:b}\".zfill(len(self.subcircuit.measured_qubits))[::-1]", "return f\"{self._result:b}\".zfill(len(self.subcircuit.measured_qubits))"),
    ("c15_zfill_short", "C15", "core/result.py", "        return OrderedDict([(f\"{n:b}\".zfill(qubits)[::-1], v) for n, v in enumerate(p)])", "        return OrderedDict([(f\"{n:b}\".zfill(qubits - 1)[::-1], v) for n, v in enumerate(p)])"),
    ("c15_count_wrong_bin", "C15", "core/result.py", "        self._relative_frequencies[readout.as_int] += 1", "        self._relative_frequencies[readout.as_int ^ (1 if len(self._readouts) > 2 else 0)] += 1"),
    ("c15_str_outputs_not_reversed", "C15", "core/result.py", "            nxt = int(nxt[::-1], 2)", "            nxt = int(nxt, 2)"),
    # ---- C16
    ("c16_lexer_line_numbers_carry_over", "C16", "parser/parser.py", [("    lexer = JaqalLexer()\n    parser = JaqalParser(", "    global _LEXER\n    try:\n        lexer = _LEXER\n    except NameError:\n        lexer = _LEXER = JaqalLexer()\n    parser = JaqalParser("), ("        parser.parse(lexer.tokenize(jaqal))", "        parser.parse(lexer.tokenize(jaqal, lineno=getattr(lexer, \"lineno\", 1)))")], None),
    ("c16_memo_table_class_attr", "C16", "core/circuitbuilder.py", "    def __init__(self):\n        self._table = {}\n", "    _table = {}\n\n    def __init__(self):\n        pass\n"),
    ("c16_raise_error_valueerror", "C16", "parser/slyparse.py", "        line = self._last_line\n        col = self.compute_col()\n        raise JaqalParseError(self._source, line, col, message)", "        line = self._last_line\n        col = self.compute_col()\n        raise ValueError(message)"),
    ("c16_in_body_on_class", "C16", "parser/slyparse.py", [("        self._in_body = False\n", "        pass\n"), ("    tokens = JaqalLexer.tokens\n", "    tokens = JaqalLexer.tokens\n    _in_body = False\n"), ("        self._in_body = True\n        self.top_sexpression.append(tree[0])", "        type(self)._in_body = True\n        self.top_sexpression.append(tree[0])")], None),
    ("c16_source_text_kept_from_first_parse", "C16", "parser/slyparse.py", "        self._source_text = source_text\n", "        if getattr(JaqalParser, \"_first_text\", None) is None:\n            JaqalParser._first_text = source_text\n        self._source_text = JaqalParser._first_text\n"),
    ("c16_eof_attributeerror", "C16", "parser/slyparse.py", "            msg = \"Unexpected end of input\"\n", "            msg = \"Unexpected end of input\" + token.value\n"),
    ("c16_keep_failed_module", "C16", "_import.py", "        sys.modules.pop(mod_name, None)\n", "        pass\n"),
    ("c16_no_importlib_util", "C16", "_import.py", "import sys, importlib, importlib.util, os", "import sys, importlib, os"),
]


def make_copy():
    d = tempfile.mkdtemp(prefix="jaqmut-")
    shutil.copytree(os.path.join(REPO, "src"), os.path.join(d, "src"), ignore=shutil.ignore_patterns("__pycache__", "*.egg-info"))
    return d


def run_check(prop, src, runs, seed=None):
    env = dict(os.environ)
    env["VERIF_REPO_SRC"] = src
    if seed is not None:
        env["VERIF_SEED"] = str(seed)
    # evidence of these runs must not overwrite the evidence of the real tree
    env["VERIF_EVIDENCE_DIR"] = tempfile.mkdtemp(prefix="jaqev-")
    env["VERIF_REPLAY_DIR"] = env["VERIF_EVIDENCE_DIR"]
    try:
        out = subprocess.run([os.path.join(VERIF, "vcheck"), prop, "--tier", "quick"] + (["--runs", str(runs)] if runs else []), env=env, capture_output=True, text=True, timeout=1800)
    finally:
        shutil.rmtree(env["VERIF_EVIDENCE_DIR"], ignore_errors=True)
    return out.returncode, out.stdout + out.stderr


def mutants(argv):
    only = argv[argv.index("--only") + 1] if "--only" in argv else None
    runs = int(argv[argv.index("--runs") + 1]) if "--runs" in argv else None
    if "--list" in argv:
        for m in MUTANTS:
            print(m[0], m[1], m[2])
        return 0
    results = []
    todo = [m for m in MUTANTS if not only or only in m[0] or only == m[1]]
    for name, prop, rel, old, new in todo:
        d = make_copy()
        try:
            path = os.path.join(d, "src", "jaqalpaq", rel)
            s = open(path).read()
            edits = old if isinstance(old, list) else [(old, new)]
            if any(a not in s for a, _ in edits):
                results.append((name, prop, "NOT-APPLICABLE (pattern missing)"))
                print(results[-1], flush=True)
                continue
            for a, b in edits:
                s = s.replace(a, b, 1)
            open(path, "w").write(s)
            # the mutant must still import
            imp = subprocess.run(["/venv/bin/python", "-B", "-c", "import sys; sys.path.insert(0, %r); import jaqalpaq.parser, jaqalpaq.run, jaqalpaq.core.result" % os.path.join(d, "src")], capture_output=True, text=True)
            if imp.returncode != 0:
                results.append((name, prop, "BROKEN-MUTANT " + imp.stderr[-200:]))
                print(results[-1], flush=True)
                continue
            t0 = time.time()
            code, out = run_check(prop, os.path.join(d, "src"), runs)
            verdict = {1: "KILLED", 0: "SURVIVED", 2: "HARNESS-ERROR"}.get(code, "exit %d" % code)
            first = [l for l in out.splitlines() if l.startswith("VIOLATION") or l.startswith("--- minimised") or l.startswith("HARNESS")][:2]
            results.append((name, prop, verdict, round(time.time() - t0, 1), first))
            print(results[-1], flush=True)
        finally:
            shutil.rmtree(d, ignore_errors=True)
    if not only:
        d = make_copy()
        try:
            for prop in ("C03", "C08", "C09", "C15", "C10", "C11", "C16"):
                code, out = run_check(prop, os.path.join(d, "src"), runs)
                results.append(("unmutated-copy", prop, "CLEAN" if code == 0 else "ALARM exit %d" % code))
                print(results[-1], flush=True)
        finally:
            shutil.rmtree(d, ignore_errors=True)
    survived = [r for r in results if r[2] not in ("KILLED", "CLEAN")]
    print(json.dumps({"mutants": len(todo), "not_killed": survived}, indent=1))
    return 0 if not survived else 1
