"""R1 generator: seeded, swarm-configured Jaqal program ASTs that the generator can
evaluate itself (through progast.resolve, which is also the statement-level validity
filter: a candidate statement that makes the program invalid is discarded)."""
import copy

from . import gateset as GS
from .progast import Invalid, resolve

NAMES = ["a", "b", "r", "s", "x"]
PARAM_NAMES = ["a", "b", "r", "s", "x", "y", "t"]
INT_VALUES = [0, 1, 2, 3]
FLOAT_VALUES = [0.5, -1.25, 3.25, 0.001, 0.000001, 7.25, -0.3]
ANGLES = [0.0, 1.5707963267948966, -1.5707963267948966, 3.141592653589793, 0.3, 0.001, 7.25, -1.2, 2.5, 1, 2, -3]


def _keyorder(k):
    """A total order on qubit keys (ints and strings) that does not depend on hashing."""
    return (type(k).__name__, str(k))


def swarm(t, profile="exec"):
    """Per-run configuration drawn from the 'swarm' tape."""
    import os

    deep = os.environ.get("VERIF_TIER_ACTIVE") == "thorough"  # deeper bounds in the thorough tier
    on = lambda p=0.6: t.random() < p
    gates = [g for g in GS.SIGS if on(0.7)] or ["Rx"]
    if "Rx" not in gates and on(0.5):
        gates.append("Rx")
    cfg = {
        "profile": profile,
        "n": t.weighted([(1, 1), (2, 3), (3, 3), (4, 2), (5, 0.7), (6, 0.5)]),
        "budget": t.randint(3, 40 if deep else 25),
        "max_depth": t.randint(1, 6 if deep else 5),
        "loop_counts": [c for c in (0, 1, 2, 3) if on(0.7)] or [2],
        "p_lets": t.choice([0.0, 0.5, 0.9]),
        "p_letsize": t.choice([0.0, 0.0, 0.3, 0.7]),
        "p_maps": t.choice([0.0, 0.4, 0.8]),
        "p_alias_use": t.choice([0.2, 0.5, 0.8]),
        "p_let_use": t.choice([0.0, 0.3, 0.6]),
        "p_macros": t.choice([0.0, 0.5, 0.9]),
        "p_par": t.choice([0.0, 0.15, 0.3]),
        "p_loop": t.choice([0.0, 0.15, 0.3]),
        "p_call": t.choice([0.1, 0.3]),
        "p_idle": t.choice([0.0, 0.1]),
        "p_subblock": t.choice([0.0, 0.5, 1.0]),
        "p_weird_bracket": t.choice([0.0, 0.0, 0.15]),
        "p_override": t.choice([0.0, 0.3, 0.7]),
        "p_shadow": t.choice([0.0, 0.3, 0.7]),
        "p_sub_count": t.choice([0.0, 0.3]),
        "gates": gates,
        "anon": False,
        "layout_noise": t.choice([0.0, 0.5, 1.0]),
    }
    if profile != "exec":
        cfg["anon"] = on(0.4)
    return cfg


class Gen:
    def __init__(self, tape, cfg):
        self.t = tape
        self.cfg = cfg
        self.exec = cfg["profile"] == "exec"
        self.budget = cfg["budget"]

    # ---------------------------------------------------------------- header
    def header(self):
        t, cfg = self.t, self.cfg
        prog = {"lets": [], "reg": None, "maps": [], "pulses": None, "macros": [], "body": []}
        self.lets = {}
        used = set()
        if t.chance(cfg["p_lets"]):
            for _ in range(t.randint(1, 3)):
                nm = t.choice(NAMES)
                if nm in used:
                    continue
                v = t.choice(INT_VALUES) if t.chance(0.6) else t.choice(FLOAT_VALUES)
                used.add(nm)
                self.lets[nm] = v
                prog["lets"].append([nm, v])
        n = cfg["n"]
        rname = "q"
        if t.chance(0.15):
            free = [x for x in NAMES if x not in used]
            if free:
                rname = t.choice(free)
        self.rname = rname
        size = n
        cands = [k for k, v in self.lets.items() if isinstance(v, int) and 1 <= v <= 4]
        if cands and t.chance(cfg["p_letsize"]):
            size = t.choice(cands)
            n = self.lets[size]
        prog["reg"] = [rname, size]
        used.add(rname)
        self.n = n
        self.regs = {rname: list(range(n))}
        self.singles = {}
        if t.chance(cfg["p_maps"]):
            last = None
            for _ in range(t.randint(1, 4)):
                nm = t.choice(NAMES)
                if nm in used:
                    continue
                # prefer chains: an alias of the most recent alias
                src = last if (last in self.regs and t.chance(0.6)) else t.choice(sorted(self.regs))
                base = self.regs[src]
                x = t.random()
                if x < 0.2:
                    prog["maps"].append({"name": nm, "src": src, "kind": "whole"})
                    self.regs[nm] = list(base)
                    last = nm
                elif x < 0.2 + cfg.get("p_single", 0.2):
                    i = t.randrange(len(base))
                    prog["maps"].append({"name": nm, "src": src, "kind": "single", "idx": self.int_ref(i)})
                    self.singles[nm] = base[i]
                    self.single_src = getattr(self, "single_src", {})
                    self.single_src[nm] = src
                else:
                    a = t.randrange(len(base))
                    if len(base) >= 3 and t.chance(0.5):
                        a = t.randint(1, len(base) - 2)  # non-zero start, at least two left
                    b = t.randint(a + 1, len(base))
                    if t.chance(0.4):
                        b = len(base)
                    st = t.choice([1, 1, 2, 2, 3])
                    if len(base) >= 3 and t.chance(0.12):
                        # the whole source, strided: first to last bound, only the step differs
                        a, b, st = 0, len(base), t.choice([2, 2, 3])
                        form = 0.0 * t.random()
                    else:
                        form = t.random()
                    if t.chance(0.25 * cfg["p_lets"]):
                        # a let made for one of this slice's bounds (then int_ref may pick it)
                        val_ = t.choice([a, b])
                        free_ = [x for x in NAMES + ["k", "m", "n"] if x not in used and x not in self.lets and x != nm]
                        if free_ and not any(isinstance(v_, int) and v_ == val_ for v_ in self.lets.values()):
                            nm_ = t.choice(free_)
                            used.add(nm_)
                            self.lets[nm_] = val_
                            prog["lets"].append([nm_, val_])
                    start, stop, step = self.int_ref(a), self.int_ref(b), None
                    if isinstance(start, int) and isinstance(stop, int) and t.chance(0.3 * cfg["p_lets"]):
                        start = self.int_ref_sure(a, start)
                        stop = self.int_ref_sure(b, stop) if isinstance(start, int) else stop
                    if form < 0.45:
                        step = self.int_ref(st)
                        if isinstance(step, int):
                            # a let-valued step whenever a let of that value exists
                            c_ = [k for k, v in sorted(self.lets.items()) if isinstance(v, int) and v == st]
                            if c_ and t.chance(0.5):
                                step = t.choice(c_)
                    elif form < 0.53:
                        start, a = None, 0
                    elif form < 0.65:
                        stop, b = None, len(base)
                    elif form < 0.7:
                        start, stop, a, b = None, None, 0, len(base)
                    if step is None:
                        st = 1
                    sub = base[a:b:st]
                    if not sub:
                        continue
                    prog["maps"].append({"name": nm, "src": src, "kind": "slice", "start": start, "stop": stop, "step": step})
                    self.regs[nm] = sub
                    last = nm
                used.add(nm)
        self.used_names = used
        return prog

    def int_ref_sure(self, i, default):
        """An int let of value i if there is one (regardless of p_let_use)."""
        c = [k for k, v in sorted(self.lets.items()) if isinstance(v, int) and v == i]
        return self.t.choice(c) if c else default

    def int_ref(self, i, scope_params=()):
        """Literal i, or an int let of that value that is visible (not shadowed)."""
        c = [k for k, v in sorted(self.lets.items()) if isinstance(v, int) and v == i and k not in scope_params]
        if c and self.t.chance(self.cfg["p_let_use"]):
            return self.t.choice(c)
        return i

    # ---------------------------------------------------------------- references
    def qubit_cands(self, params):
        """All ways to name a qubit in this scope: list of (ARG, key)."""
        out = []
        for p, info in params.items():
            if info["kind"] == "q":
                out.append((["id", p], "p:" + p))
            elif info["kind"] == "r":
                for j in range(info["minsize"]):
                    out.append((["item", p, j], "r:%s:%d" % (p, j)))
                for p2, info2 in params.items():
                    if info2["kind"] == "i":
                        # a register parameter indexed by an index parameter
                        out.append((["item", p, p2], "ri:%s:%s" % (p, p2)))
        for s_, i in sorted(self.singles.items()):
            if s_ not in params:
                out.append((["id", s_], i))
        for r_, m in sorted(self.regs.items()):
            if r_ in params:
                continue
            for j, i in enumerate(m):
                out.append((["item", r_, j], i))
                for k, v in sorted(self.lets.items()):
                    if k not in params and isinstance(v, int) and v == j:
                        out.append((["item", r_, k], i))
            for p, info in params.items():
                if info["kind"] == "i":
                    info.setdefault("lens", [])
                    out.append((["item", r_, p], "i:%s:%s" % (r_, p)))
        return out

    def pick_qubits(self, k, params, avail):
        """k distinct qubit references whose keys lie in avail (None = anything)."""
        t = self.t
        cands = self.qubit_cands(params)
        if avail is not None:
            cands = [c for c in cands if c[1] in avail]
        # weight aliases / direct per swarm
        direct = [c for c in cands if c[0][0] == "item" and c[0][1] == self.rname and isinstance(c[0][2], int)]
        fancy = [c for c in cands if c not in direct]
        ri = [c for c in cands if isinstance(c[1], str) and c[1].startswith("ri:")]
        if ri and t.chance(0.5):
            fancy = ri
        # single-qubit aliases whose source register is hidden by a parameter of this macro
        # (written out as an indexed register they would be captured by the parameter)
        ssrc = getattr(self, "single_src", {})
        hidden = [c for c in cands if c[0][0] == "id" and ssrc.get(c[0][1]) in params]
        chosen, keys = [], set()
        for _ in range(k):
            pool = fancy if (fancy and t.chance(self.cfg["p_alias_use"])) else (direct or fancy)
            if hidden and t.chance(0.6):
                pool = hidden
            pool = [c for c in pool if c[1] not in keys]
            if not pool:
                pool = [c for c in cands if c[1] not in keys]
            if not pool:
                return None
            c = t.choice(pool)
            chosen.append(c)
            keys.add(c[1])
            if isinstance(c[1], str) and c[1].startswith("i:"):
                _, r_, p = c[1].split(":")
                params[p].setdefault("lens", []).append(len(self.regs[r_]))
            if isinstance(c[1], str) and c[1].startswith("ri:"):
                _, pr, pi = c[1].split(":")
                params[pi].setdefault("lens", []).append(params[pr]["minsize"])
        return chosen

    def angle(self, params):
        t = self.t
        c = [["id", p] for p, info in params.items() if info["kind"] == "f"]
        if c and t.chance(0.5):
            return t.choice(c)
        lets = [["id", k] for k in sorted(self.lets) if k not in params]
        if lets and t.chance(self.cfg["p_let_use"]):
            return t.choice(lets)
        if t.chance(0.15):
            return ["num", round(t.random() * 12.566 - 6.283, 6)]
        return ["num", t.choice(ANGLES)]

    def intarg(self, params):
        t = self.t
        c = [["id", p] for p, info in params.items() if info["kind"] in ("c",)]
        if c and t.chance(0.4):
            return t.choice(c)
        lets = [["id", k] for k, v in sorted(self.lets.items()) if k not in params and isinstance(v, int)]
        if lets and t.chance(self.cfg["p_let_use"]):
            return t.choice(lets)
        return ["num", t.choice([0, 1, 2, 3])]

    def count(self, params):
        t = self.t
        c = [p for p, info in params.items() if info["kind"] == "c"]
        if c and t.chance(0.5):
            return t.choice(c)
        lets = [k for k, v in sorted(self.lets.items()) if k not in params and isinstance(v, int) and v >= 0]
        if lets and not getattr(self, "pure", False) and t.chance(max(0.5 if getattr(self, "in_macro", False) else 0.2, self.cfg["p_let_use"])):
            return t.choice(lets)
        return t.choice(self.cfg["loop_counts"])

    # ---------------------------------------------------------------- statements
    def gate(self, params, avail):
        t, cfg = self.t, self.cfg
        if cfg["anon"] and t.chance(0.5):
            return self.anon_gate(params)
        name = t.choice(cfg["gates"])
        sg = GS.SIGS[name]
        idle = t.chance(cfg["p_idle"])
        nq = sg.count("q")
        qs = self.pick_qubits(nq, params, None if idle and t.chance(0.5) else avail)
        if qs is None:
            name, sg, nq = "Rx", "qf", 1
            if "Rx" not in cfg["gates"]:
                name, sg = cfg["gates"][0], GS.SIGS[cfg["gates"][0]]
                nq = sg.count("q")
            qs = self.pick_qubits(nq, params, avail)
            if qs is None:
                return None
        args, qi = [], 0
        for k in sg:
            if k == "q":
                args.append(qs[qi][0])
                qi += 1
            elif k == "f":
                args.append(self.angle(params))
            else:
                args.append(self.intarg(params))
        self.budget -= 1
        return {"k": "gate", "name": ("I_" + name) if idle else name, "args": args}, {c[1] for c in qs}

    def anon_gate(self, params):
        t = self.t
        name = t.choice(["g", "h", "foo"])
        nargs = {"g": 1, "h": 2, "foo": 0}[name]
        args = []
        for _ in range(nargs):
            if t.chance(0.6):
                q = self.pick_qubits(1, params, None)
                args.append(q[0][0] if q else ["num", 1])
            else:
                args.append(self.angle(params))
        self.budget -= 1
        return {"k": "gate", "name": name, "args": args}, set()

    def all_keys(self, params):
        return sorted({c[1] for c in self.qubit_cands(params)}, key=_keyorder)

    def inside_items(self, params, depth, avail, parent="seq", maxn=4):
        """Statements legal inside a bracket (gates, parallel blocks, loops, gate-macro
        calls), using only qubits whose key is in avail."""
        t, cfg = self.t, self.cfg
        items = []
        k = t.randint(0 if depth else 1, maxn)
        for _ in range(k):
            if self.budget <= 0:
                break
            x = t.random()
            deep = depth >= cfg["max_depth"]
            if parent == "par":
                # gate or sequential block
                if x < 0.6 or deep:
                    g = self.gate(params, avail)
                    if g:
                        items.append(g[0])
                else:
                    items.append({"k": "seq", "body": self.inside_items(params, depth + 1, avail, "seq", 3)})
                    self.budget -= 1
                continue
            if x < cfg["p_par"] and not deep:
                # (avail may be a set: never iterate it in hash order)
                keys = [a for a in (sorted(avail, key=_keyorder) if avail is not None else self.all_keys(params))]
                keys = [a for a in keys if a is not None]
                t.shuffle(keys)
                nb = t.randint(1, max(1, min(3, len(keys))))
                parts = [set(keys[i::nb]) for i in range(nb)]
                branches = []
                for part in parts:
                    if t.chance(0.55):
                        g = self.gate(params, part)
                        if g:
                            branches.append(g[0])
                    else:
                        branches.append({"k": "seq", "body": self.inside_items(params, depth + 1, part, "seq", 3)})
                self.budget -= 1
                items.append({"k": "par", "body": branches})
            elif x < cfg["p_par"] + cfg["p_loop"] and not deep:
                if t.chance(0.8):
                    body = {"k": "seq", "body": self.inside_items(params, depth + 1, avail, "seq", 3)}
                else:
                    keys = [a for a in (sorted(avail, key=_keyorder) if avail is not None else self.all_keys(params)) if a is not None]
                    t.shuffle(keys)
                    nb = t.randint(1, max(1, min(2, len(keys))))
                    br = []
                    for part in [set(keys[i::nb]) for i in range(nb)]:
                        g = self.gate(params, part)
                        if g:
                            br.append(g[0])
                    body = {"k": "par", "body": br}
                self.budget -= 1
                items.append({"k": "loop", "count": self.count(params), "body": body})
            elif x < cfg["p_par"] + cfg["p_loop"] + cfg["p_call"] and self.gate_macros:
                c = self.call(t.choice(self.gate_macros), params, avail)
                if c:
                    items.append(c)
            else:
                g = self.gate(params, avail)
                if g:
                    items.append(g[0])
        return items

    def call(self, m, params, avail):
        """A call of macro m with arguments of the kinds its parameters expect."""
        t = self.t
        args = []
        nq = sum(1 for p in m["info"].values() if p["kind"] == "q")
        qs = self.pick_qubits(nq, params, avail) if nq else []
        if qs is None:
            return None
        qi = 0
        for p in m["params"]:
            info = m["info"][p]
            kd = info["kind"]
            if kd == "q":
                args.append(qs[qi][0])
                qi += 1
            elif kd == "f":
                args.append(self.angle(params))
            elif kd == "i":
                hi = min(info.get("lens") or [1])
                args.append(["num", t.randrange(hi)])
            elif kd == "c":
                args.append(self.intarg(params) if t.chance(0.3) else ["num", t.choice([0, 1, 2])])
            elif kd == "r":
                regs = [r_ for r_, mm in sorted(self.regs.items()) if len(mm) >= info["minsize"] and r_ not in params]
                if not regs:
                    return None
                ali = [r_ for r_ in regs if r_ != self.rname]
                # (an alias rather than the register itself more often than chance)
                args.append(["id", t.choice(ali) if ali and t.chance(0.6) else t.choice(regs)])
        self.budget -= 1
        return {"k": "gate", "name": m["name"], "args": args}

    def bracket(self, params, depth):
        """A prepare ... measure section in one of its spellings; returns a list of
        statements to splice into a sequential (outside) context."""
        t, cfg = self.t, self.cfg
        prep = {"k": "gate", "name": "prepare_all", "args": []}
        meas = {"k": "gate", "name": "measure_all", "args": []}
        if t.chance(cfg["p_subblock"]):
            cnt = None
            if t.chance(cfg["p_sub_count"]):
                cnt = self.count(params)
                if cnt == 0 and not isinstance(cnt, str):
                    cnt = 2
            self.budget -= 1
            body = self.inside_items(params, depth + 1, None)
            if t.chance(cfg["p_weird_bracket"]):
                # legal: the block's own prepare_all followed by an explicit one (gates before
                # a repeated prepare_all are discarded)
                body = [copy.deepcopy(prep)] + body if t.chance(0.5) else body[: len(body) // 2] + [copy.deepcopy(prep)] + body[len(body) // 2 :]
            return [{"k": "sub", "count": cnt, "body": body}]
        body = self.inside_items(params, depth, None)
        out = [prep] + body
        if t.chance(cfg["p_weird_bracket"]):
            # gates before a repeated prepare_all are discarded
            out += [copy.deepcopy(prep)] + self.inside_items(params, depth, None, maxn=2)
        if t.chance(cfg["p_weird_bracket"]):
            out[0] = {"k": "par", "body": [prep]}
        if t.chance(cfg["p_weird_bracket"]):
            out.append({"k": "par", "body": [meas]})
        elif depth == 0 and not params and t.chance(cfg["p_weird_bracket"]):
            out.append({"k": "seq", "body": self.inside_items(params, depth + 1, None, maxn=2) + [meas]})
        else:
            out.append(meas)
        self.budget -= 2
        return out

    def outside_group(self, params, depth, top):
        """One group of statements for a context that is outside any bracket."""
        t, cfg = self.t, self.cfg
        x = t.random()
        deep = depth >= cfg["max_depth"]
        if x < cfg["p_loop"] + 0.1 and not deep:
            inner = []
            for _ in range(t.randint(1, 2)):
                inner += self.outside_group(params, depth + 1, False)
            self.budget -= 1
            return [{"k": "loop", "count": self.count(params), "body": {"k": "seq", "body": inner}}]
        if x < cfg["p_loop"] + 0.15 and top and not deep:
            inner = []
            for _ in range(t.randint(1, 2)):
                inner += self.outside_group(params, depth + 1, False)
            self.budget -= 1
            return [{"k": "seq", "body": inner}]
        if x < cfg["p_loop"] + 0.15 + cfg["p_call"] and self.bracket_macros:
            c = self.call(t.choice(self.bracket_macros), params, None)
            if c:
                return [c]
        return self.bracket(params, depth)

    def general_items(self, params, depth, parent, in_sub, in_par, maxn=4):
        """General profile: any grammatical, builder-valid nesting (no bracket discipline)."""
        t, cfg = self.t, self.cfg
        items = []
        for _ in range(t.randint(0 if depth else 1, maxn)):
            if self.budget <= 0:
                break
            x = t.random()
            deep = depth >= cfg["max_depth"]
            if parent == "par":
                if x < 0.6 or deep:
                    g = self.gate(params, None)
                    if g:
                        items.append(g[0])
                else:
                    self.budget -= 1
                    items.append({"k": "seq", "body": self.general_items(params, depth + 1, "seq", in_sub, True, 3)})
                continue
            if x < 0.4 or deep:
                g = self.gate(params, None)
                if g:
                    items.append(g[0])
            elif x < 0.4 + cfg["p_par"]:
                self.budget -= 1
                items.append({"k": "par", "body": self.general_items(params, depth + 1, "par", in_sub, True, 3)})
            elif x < 0.4 + cfg["p_par"] + cfg["p_loop"]:
                self.budget -= 1
                if t.chance(0.8):
                    body = {"k": "seq", "body": self.general_items(params, depth + 1, "seq", in_sub, in_par, 3)}
                else:
                    body = {"k": "par", "body": self.general_items(params, depth + 1, "par", in_sub, True, 2)}
                items.append({"k": "loop", "count": self.count(params), "body": body})
            elif x < 0.55 + cfg["p_par"] + cfg["p_loop"] and not in_sub and not in_par and not params:
                cnt = self.count(params) if t.chance(cfg["p_sub_count"]) else None
                self.budget -= 1
                items.append({"k": "sub", "count": cnt, "body": self.general_items(params, depth + 1, "seq", True, in_par, 3)})
            elif self.gate_macros and x < 0.7 + cfg["p_par"] + cfg["p_loop"]:
                c = self.call(t.choice(self.gate_macros), params, None)
                if c:
                    items.append(c)
            elif depth == 0 and parent == "top" and t.chance(0.3):
                self.budget -= 1
                items.append({"k": "seq", "body": self.general_items(params, depth + 1, "seq", in_sub, in_par, 3)})
            elif t.chance(0.3):
                items.append({"k": "gate", "name": t.choice(["prepare_all", "measure_all"]), "args": []})
            else:
                g = self.gate(params, None)
                if g:
                    items.append(g[0])
        return items

    # ---------------------------------------------------------------- macros
    def macro(self, idx):
        t, cfg = self.t, self.cfg
        name = "m%d" % idx
        nparams = t.choice([0, 1, 1, 2, 2, 3])
        # (shadowing: a parameter named like the register, like a single-qubit alias, like a let)
        pool = (PARAM_NAMES + [self.rname] * 2 + sorted(self.singles) * 2 + sorted(self.lets) + sorted(r_ for r_ in self.regs if r_ != self.rname) + sorted(set(getattr(self, "single_src", {}).values())) * 3) if t.chance(cfg["p_shadow"]) else [p for p in PARAM_NAMES if p not in self.used_names] or PARAM_NAMES
        pool = list(dict.fromkeys(pool)) if not t.chance(0.5) else pool
        pnames = t.sample(pool, min(nparams, len(pool)))
        pnames = list(dict.fromkeys(pnames))
        info = {}
        for p in pnames:
            kd = t.weighted([("q", 5), ("f", 3), ("i", 1.5), ("c", 1.5), ("r", 2)])
            if p in self.regs and t.chance(0.7):
                kd = "r"  # a parameter shadowing a register name, used as a register
            elif p in self.singles and t.chance(0.8):
                kd = "q"  # shadowing a single-qubit alias, used as a qubit
            elif p in self.lets and t.chance(0.8):
                kd = "f" if isinstance(self.lets[p], float) else t.choice(["i", "c", "f"])  # shadowing a let, used as a number
            info[p] = {"kind": kd}
            if kd == "r":
                info[p]["minsize"] = t.randint(1, 2)
        if cfg.get("p_regparam") and len(pnames) >= 2 and t.chance(cfg["p_regparam"]):
            # a register parameter and an index parameter for it (macro F r i { G r[i] })
            info[pnames[0]] = {"kind": "r", "minsize": t.randint(1, 2)}
            info[pnames[1]] = {"kind": "i"}
        rs = [p for p in pnames if info[p]["kind"] == "r"]
        others = [p for p in pnames if info[p]["kind"] != "r"]
        if rs and others and t.chance(0.5):
            info[t.choice(others)] = {"kind": "i"}  # a register parameter indexed by an index parameter
        role = "bracket" if (self.exec and t.chance(0.3)) else "gates"
        self.in_macro = True
        saved_cfg = None
        if t.chance(0.3):
            # a "pure" macro: it mentions its parameters, the register and other macros only
            # - no let, no alias (what a pass does to a definition that it has no reason to
            # touch is a case of its own)
            saved_cfg = {k_: cfg[k_] for k_ in ("p_let_use", "p_alias_use", "p_call")}
            cfg.update(p_let_use=0.0, p_alias_use=0.0, p_call=max(cfg["p_call"], 0.45))
            self.pure = True
            if self.exec and self.gate_macros and t.chance(0.5):
                role = "bracket"  # ... and calls them from inside its own subcircuit blocks
                saved_cfg["p_subblock"] = cfg["p_subblock"]
                cfg["p_subblock"] = max(cfg["p_subblock"], 0.7)
        if not self.exec:
            body_items = self.general_items(info, 1, "seq", False, False, 3)
            body = {"k": "seq", "body": body_items}
        elif role == "gates":
            if t.chance(0.15):
                keys = [k_ for k_ in self.all_keys(info) if k_ is not None]
                t.shuffle(keys)
                nb = t.randint(1, max(1, min(3, len(keys))))
                br = []
                for part in [set(keys[i::nb]) for i in range(nb)]:
                    g = self.gate(info, part)
                    if g:
                        br.append(g[0])
                body = {"k": "par", "body": br}
            else:
                body = {"k": "seq", "body": self.inside_items(info, 1, None, "seq", 3)}
        else:
            items = []
            for _ in range(t.randint(1, 2)):
                items += self.outside_group(info, 1, False) if t.chance(0.5) else self.bracket(info, 1)
            body = {"k": "seq", "body": items}
        for p in pnames:
            if info[p]["kind"] == "i" and not info[p].get("lens"):
                info[p]["lens"] = [1]
        self.in_macro = False
        if saved_cfg is not None:
            cfg.update(saved_cfg)
            self.pure = False
        m = {"name": name, "params": pnames, "body": body}
        return m, {"name": name, "params": pnames, "info": info, "role": role}

    # ---------------------------------------------------------------- whole program
    def program(self):
        t, cfg = self.t, self.cfg
        prog = self.header()
        self.gate_macros, self.bracket_macros = [], []
        if t.chance(cfg["p_macros"]):
            for i in range(t.randint(1, 3)):
                m, meta = self.macro(i)
                cand = copy.deepcopy(prog)
                cand["macros"].append(m)
                try:
                    resolve(cand, None, executable=False, anon=cfg["anon"])
                except Invalid:
                    continue
                prog["macros"].append(m)
                (self.bracket_macros if meta["role"] == "bracket" else self.gate_macros).append(meta)
        tries = 0
        while self.budget > 0 and tries < 40:
            tries += 1
            if self.exec:
                group = self.outside_group({}, 0, True)
            else:
                group = self.general_items({}, 0, "top", False, False, 2)
            if not group:
                continue
            cand = copy.deepcopy(prog)
            cand["body"].extend(group)
            try:
                resolve(cand, None, executable=self.exec, anon=cfg["anon"])
            except Invalid:
                continue
            prog = cand
        if self.exec and t.chance(cfg["p_weird_bracket"]):
            cand = copy.deepcopy(prog)
            cand["body"].append({"k": "gate", "name": "prepare_all", "args": []})
            if t.chance(0.5):
                g = self.gate({}, None)
                if g:
                    cand["body"].append(g[0])
            try:
                resolve(cand, None, executable=True)
                prog = cand
            except Invalid:
                pass
        # textual twins: a gate statement of a macro body repeated verbatim in the main body
        # (same text, other scope: identifiers may denote different things there)
        if prog["macros"] and t.chance(0.45):
            for _ in range(2):
                m = t.choice(prog["macros"])
                shadowing = [m_ for m_ in prog["macros"] if any(p_ in self.singles or p_ in self.lets or p_ in self.regs for p_ in m_["params"])]
                if shadowing and t.chance(0.7):
                    m = t.choice(shadowing)  # a parameter there means something else outside
                gates = [x for x in m["body"]["body"] if not (x["k"] == "gate" and x["name"] in ("prepare_all", "measure_all"))]
                if not gates:
                    continue
                sh_ = [x for x in gates if x["k"] == "gate" and any(a_[0] in ("id", "item") and a_[1] in m["params"] and (a_[1] in self.singles or a_[1] in self.lets or a_[1] in self.regs) for a_ in x["args"])]
                g = copy.deepcopy(t.choice(sh_) if sh_ and t.chance(0.7) else t.choice(gates))
                cand = copy.deepcopy(prog)
                subs = [x for x in cand["body"] if x["k"] == "sub"]

                def brackets(x):
                    if x["k"] == "sub" or (x["k"] == "gate" and x["name"] in ("prepare_all", "measure_all")):
                        return True
                    b = x.get("body")
                    return brackets(b) if isinstance(b, dict) else any(brackets(y) for y in (b or []))

                if brackets(g) or not self.exec:
                    # a whole subcircuit (or a loop around one) of a macro body, verbatim;
                    # outside the executable profile any statement may stand at top level
                    cand["body"].append(g)
                elif subs and t.chance(0.6):
                    tgt = t.choice(subs)
                    tgt["body"].insert(t.randrange(len(tgt["body"]) + 1), g)
                else:
                    cand["body"].append({"k": "sub", "count": None, "body": [g]})
                try:
                    resolve(cand, None, executable=self.exec, anon=cfg["anon"])
                    prog = cand
                except Invalid:
                    pass
        # the same subcircuit written twice: an existing top-level subcircuit (or loop around
        # one) repeated verbatim at the end of the program
        if self.exec and t.chance(0.15):
            groups = [x for x in prog["body"] if x["k"] in ("sub", "loop")]
            if groups:
                cand = copy.deepcopy(prog)
                cand["body"].append(copy.deepcopy(t.choice(groups)))
                try:
                    resolve(cand, None, executable=True)
                    prog = cand
                except Invalid:
                    pass
        if self.exec and not prog["body"]:
            prog["body"] = [{"k": "sub", "count": None, "body": []}]
        # overrides
        ov = {}
        bound_lets = set()
        for m_ in prog["maps"]:
            for k_ in ("idx", "start", "stop", "step"):
                if isinstance(m_.get(k_), str):
                    bound_lets.add(m_[k_])
        for name, v in prog["lets"]:
            structural = name in bound_lets and isinstance(v, int)
            if t.chance(max(cfg["p_override"], 0.5 if (structural and cfg["p_override"] > 0) else 0.0)):
                # (a let that places an alias: try the neighbouring values too, most random
                # values make the program invalid)
                tries = [t.choice(INT_VALUES) if isinstance(v, int) else t.choice(FLOAT_VALUES)]
                if structural:
                    tries += [v + 1, v - 1, v + 2]
                for nv in tries:
                    trial = dict(ov)
                    trial[name] = nv
                    try:
                        resolve(prog, trial, executable=self.exec, anon=cfg["anon"])
                        ov = trial
                        if nv != v:
                            break
                    except Invalid:
                        pass
        return prog, ov
