"""One integer decides everything: hashing of seeds, named streams and replayable tapes.

No Python hash(), no clocks.  A Tape is a named stream of uniform variates that is
recorded while a run is generated and read back verbatim on replay (falling back to the
identically seeded PRNG beyond the recorded end), so a replay file never depends on the
PRNG implementation and the shrinker can edit the draws themselves.
"""
import hashlib
import random


def H(*parts):
    """64-bit integer from a SHA-256 over the canonical rendering of parts."""
    s = "\x1f".join(repr(p) if not isinstance(p, str) else p for p in parts)
    return int.from_bytes(hashlib.sha256(s.encode("utf8")).digest()[:8], "big")


def hexdigest(obj):
    return hashlib.sha256(repr(obj).encode("utf8")).hexdigest()[:16]


class Tape:
    """Recorded stream of uniform [0,1) variates."""

    def __init__(self, seed, recorded=None):
        self.seed = seed
        self._rng = random.Random(seed)
        self.recorded = list(recorded) if recorded is not None else None
        self.log = []

    def random(self):
        u = self._rng.random()  # always advance, keeps fallback aligned
        i = len(self.log)
        if self.recorded is not None and i < len(self.recorded):
            u = self.recorded[i]
        self.log.append(u)
        return u

    def randrange(self, n):
        if n <= 0:
            raise ValueError("randrange(%r)" % (n,))
        k = int(self.random() * n)
        return min(k, n - 1)

    def randint(self, a, b):
        return a + self.randrange(b - a + 1)

    def choice(self, seq):
        return seq[self.randrange(len(seq))]

    def chance(self, p):
        return self.random() < p

    def shuffle(self, lst):
        for i in range(len(lst) - 1, 0, -1):
            j = self.randrange(i + 1)
            lst[i], lst[j] = lst[j], lst[i]

    def sample(self, seq, k):
        lst = list(seq)
        self.shuffle(lst)
        return lst[:k]

    def weighted(self, pairs):
        """pairs: list of (item, weight)"""
        tot = sum(w for _, w in pairs)
        x = self.random() * tot
        acc = 0.0
        for it, w in pairs:
            acc += w
            if x < acc:
                return it
        return pairs[-1][0]


class Streams:
    """Named, independent tapes derived from one run seed."""

    def __init__(self, run_seed, recorded=None):
        self.run_seed = run_seed
        self._recorded = recorded or {}
        self._tapes = {}

    def get(self, name):
        t = self._tapes.get(name)
        if t is None:
            t = Tape(H(self.run_seed, "stream", name), self._recorded.get(name))
            self._tapes[name] = t
        return t

    def clone(self, name, as_name):
        """A second tape with the same seed and the same recorded draws: an identical
        stream (used to feed two executions the identical random history)."""
        t = Tape(H(self.run_seed, "stream", name), self._recorded.get(name))
        self._tapes[as_name] = t
        return t

    def dump(self):
        return {k: list(t.log) for k, t in self._tapes.items() if "#" not in k}
