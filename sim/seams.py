"""Seams the simulator owns: which jaqalpaq tree is under test, the step clock
(logical time, termination verdicts, cancellation), the sampler, the file store."""
import os
import sys
import traceback

REPO_SRC = os.path.realpath(os.environ.get("VERIF_REPO_SRC", "/repo/src"))
VERIF_DIR = os.path.dirname(os.path.dirname(os.path.realpath(__file__)))


def install_repo():
    """Put the tree under test first on sys.path (and drop any other copy)."""
    sys.dont_write_bytecode = True
    sys.path[:] = [p for p in sys.path if os.path.realpath(p or ".") != REPO_SRC]
    sys.path.insert(0, REPO_SRC)
    for k in ("JAQALPAQ_RUN_EMULATOR", "JAQALPAQ_RUN_PORT"):
        os.environ.pop(k, None)
    import warnings

    # the library warns when it renormalises probabilities (sloppy gate); not an event
    warnings.filterwarnings("ignore", message="Error in probabilities", category=RuntimeWarning)


class StepBudgetExceeded(BaseException):
    pass


class SimInterrupt(BaseException):
    pass


_SLY = None


def _traced_file(fn):
    global _SLY
    if fn.startswith(REPO_SRC):
        return True
    if _SLY is None:
        import sly

        _SLY = os.path.dirname(os.path.realpath(sly.__file__))
    return fn.startswith(_SLY)


class StepClock:
    """Counts interpreter line events inside jaqalpaq and sly frames.  The count is the
    run's logical time; exceeding the budget raises StepBudgetExceeded inside the
    offending frame; inject_at=k raises SimInterrupt at line event k."""

    def __init__(self):
        self.total = 0
        self._files = {}

    def run(self, fn, budget, inject_at=None):
        cnt = [0]
        files = self._files

        def local(frame, ev, arg):
            if ev == "line":
                c = cnt[0] = cnt[0] + 1
                if c == inject_at:
                    raise SimInterrupt(c)
                if c > budget:
                    raise StepBudgetExceeded(c)
            return local

        def glob(frame, ev, arg):
            f = frame.f_code.co_filename
            ok = files.get(f)
            if ok is None:
                ok = files[f] = _traced_file(f)
            return local if ok else None

        old = sys.gettrace()
        sys.settrace(glob)
        try:
            return fn(), cnt[0]
        except BaseException as e:
            e._sim_steps = cnt[0]
            raise
        finally:
            sys.settrace(old)
            self.total += cnt[0]


def innermost_repo_frame(exc):
    """(function name, file basename, line) of the innermost frame inside the tree under
    test (or sly) of an exception's traceback."""
    tb = traceback.extract_tb(exc.__traceback__)
    inner = [f for f in tb if f.filename.startswith(REPO_SRC)]
    if not inner:
        inner = [f for f in tb if "/sly/" in f.filename]
    if not inner:
        return "?"
    f = inner[-1]
    return "%s@%s" % (f.name, os.path.basename(f.filename))


def outcome_of(fn, clock, budget, inject_at=None):
    """Run fn under the clock; -> dict(kind=ok|JaqalError|JaqalParseError|ImportError|
    nonterm|interrupt|exc:<Type>, value, exc, where, steps)."""
    from jaqalpaq.error import JaqalError
    from jaqalpaq.parser.slyparse import JaqalParseError

    try:
        v, steps = clock.run(fn, budget, inject_at)
        return {"kind": "ok", "value": v, "steps": steps}
    except StepBudgetExceeded as e:
        return {"kind": "nonterm", "exc": e, "where": innermost_repo_frame(e), "steps": getattr(e, "_sim_steps", 0)}
    except SimInterrupt as e:
        return {"kind": "interrupt", "exc": e, "where": innermost_repo_frame(e), "steps": getattr(e, "_sim_steps", 0)}
    except JaqalParseError as e:
        return {"kind": "JaqalParseError", "exc": e, "where": innermost_repo_frame(e), "steps": getattr(e, "_sim_steps", 0)}
    except JaqalError as e:
        return {"kind": "JaqalError", "exc": e, "where": innermost_repo_frame(e), "steps": getattr(e, "_sim_steps", 0)}
    except ImportError as e:
        return {"kind": "ImportError", "exc": e, "where": innermost_repo_frame(e), "steps": getattr(e, "_sim_steps", 0)}
    except (KeyboardInterrupt, SystemExit):
        raise
    except BaseException as e:
        kind = "exc:" + type(e).__name__
        tb = traceback.extract_tb(e.__traceback__)
        if tb and tb[-1].filename.startswith(os.path.join(VERIF_DIR, "sim", "gateset")):
            # raised *inside* the stub's gate-matrix function (e.g. math.cos(inf) for a
            # corrupted angle): user code failing, not the library
            kind = "exc-in-stub:" + type(e).__name__
        return {"kind": kind, "exc": e, "where": innermost_repo_frame(e), "steps": getattr(e, "_sim_steps", 0)}


class SimSampler:
    """Stands in for numpy.random.choice in jaqalpaq.emulator.backend.  Records every
    (n, p) it is handed and what it returned."""

    def __init__(self, tape, mode):
        self.tape = tape
        self.mode = mode  # faithful | adversarial | numpy
        self.calls = []

    def __call__(self, n, p=None, **kw):
        import numpy as np

        pv = None if p is None else np.array(p, dtype=float)
        if self.mode == "numpy":
            out = int(np.random.choice(n, p=p))
        elif pv is None:
            out = self.tape.randrange(n)
        elif self.mode == "adversarial":
            support = [i for i in range(len(pv)) if pv[i] > 1e-12]
            out = support[self.tape.randrange(len(support))] if support else 0
        else:
            u = self.tape.random()
            acc, out = 0.0, len(pv) - 1
            for i, x in enumerate(pv):
                acc += x
                if u < acc:
                    out = i
                    break
            # never return a zero-probability outcome because of rounding
            if pv[out] <= 0:
                nz = [i for i in range(len(pv)) if pv[i] > 0]
                out = nz[-1] if nz else 0
        self.calls.append((n, pv, out))
        return out


def install_sampler(sampler):
    import jaqalpaq.emulator.backend as B

    old = B.choice
    B.choice = sampler
    return old
