"""Minimisation of a failing plan (own delta debugger: every candidate is itself a valid
replay file).  A candidate is kept iff it reproduces a violation of the same class
(property, oracle, outcome class)."""
import copy

from . import progast
from .runner import fork_call, HarnessError


def sig_of(v):
    return (v["prop"], v["oracle"], v["cls"])


def reproduces(rec, sig):
    return any(sig_of(v) == sig for v in rec.get("violations", []))


def run_plan(mod, plan):
    def job():
        if hasattr(mod, "INLINE_TWIN"):
            mod.INLINE_TWIN = True
        rec = mod.execute(plan)
        return {"violations": rec["violations"], "plan": rec["plan"], "text": rec.get("text"), "digest": rec["digest"], "log": rec.get("log")}

    return fork_call(job)


# ---------------------------------------------------------------- AST candidates


def _lists(prog):
    """Every statement list in the program, as (container, key)."""
    out = []

    def go(s):
        k = s["k"]
        if k in ("seq", "par", "sub"):
            out.append((s, "body"))
            for x in s["body"]:
                go(x)
        elif k == "loop":
            go(s["body"])

    out.append((prog, "body"))
    for s in prog["body"]:
        go(s)
    for m in prog["macros"]:
        go(m["body"])
    return out


def ast_candidates(prog):
    """Yield smaller programs (deep copies)."""
    # drop a macro together with its calls
    for mi in range(len(prog["macros"])):
        p = copy.deepcopy(prog)
        name = p["macros"][mi]["name"]
        del p["macros"][mi]
        for cont, key in _lists(p):
            cont[key] = [s for s in cont[key] if not (s["k"] == "gate" and s["name"] == name)]
        yield p
    # delete statements: halves first, then singles
    nlists = len(_lists(prog))
    for li in range(nlists):
        L = _lists(prog)[li]
        n = len(L[0][L[1]])
        if n >= 4:
            for lo, hi in ((0, n // 2), (n // 2, n)):
                p = copy.deepcopy(prog)
                c = _lists(p)[li]
                del c[0][c[1]][lo:hi]
                yield p
        for j in range(n):
            p = copy.deepcopy(prog)
            c = _lists(p)[li]
            del c[0][c[1]][j]
            yield p
    # hoist: replace a block/loop/sub by its body where the grammar allows
    for li in range(nlists):
        L = _lists(prog)[li]
        for j, s in enumerate(L[0][L[1]]):
            k = s["k"]
            inner = None
            if k == "loop":
                inner = s["body"]["body"] if s["body"]["k"] == "seq" else [s["body"]]
            elif k == "sub":
                inner = s["body"]
            elif k == "seq" and L[0].get("k") != "par":
                inner = s["body"]
            if inner is not None:
                p = copy.deepcopy(prog)
                c = _lists(p)[li]
                c[0][c[1]][j : j + 1] = copy.deepcopy(inner)
                yield p
            if k == "loop" and s["count"] not in (0, 1):
                for nv in (1, 0):
                    p = copy.deepcopy(prog)
                    c = _lists(p)[li]
                    c[0][c[1]][j]["count"] = nv
                    yield p
            if k == "sub" and s.get("count") is not None:
                p = copy.deepcopy(prog)
                c = _lists(p)[li]
                c[0][c[1]][j]["count"] = None
                yield p
            if k == "gate":
                for ai, a in enumerate(s["args"]):
                    if a[0] == "num" and a[1] not in (1, 1.0):
                        p = copy.deepcopy(prog)
                        c = _lists(p)[li]
                        c[0][c[1]][j]["args"][ai] = ["num", 1.0 if isinstance(a[1], float) else 1]
                        yield p
    # header: drop maps / lets (validity filter rejects the ones still in use)
    for mi in range(len(prog["maps"])):
        p = copy.deepcopy(prog)
        del p["maps"][mi]
        yield p
    for li in range(len(prog["lets"])):
        p = copy.deepcopy(prog)
        del p["lets"][li]
        yield p
    if isinstance(prog["reg"][1], int) and prog["reg"][1] > 1:
        p = copy.deepcopy(prog)
        p["reg"][1] -= 1
        yield p


def shrink(mod, plan, sig, budget=300, log=None):
    """Greedy fixpoint over mod.candidates(plan); -> (smaller plan, executions used)."""
    used = 0
    best = plan
    improved = True
    while improved and used < budget:
        improved = False
        for cand in mod.candidates(best):
            if used >= budget:
                break
            used += 1
            try:
                rec = run_plan(mod, cand)
            except HarnessError:
                continue
            if reproduces(rec, sig):
                best = rec["plan"]
                best["tapes"] = rec["plan"].get("tapes")
                improved = True
                break
    return best, used


# ---------------------------------------------------------------- chains of runs
# A violation that appears only when earlier runs were executed in the same process (state
# kept at module or class level by the library) is replayed as a *chain*: the plans are
# executed back to back in one fresh process and the last one must show the violation.


def run_chain(mod, plans):
    def job():
        if hasattr(mod, "INLINE_TWIN"):
            mod.INLINE_TWIN = True
        rec = None
        for p in plans:
            rec = mod.execute(p)
        return {"violations": rec["violations"], "plan": rec["plan"], "text": rec.get("text"), "digest": rec["digest"], "log": rec.get("log")}

    rec = fork_call(job)
    if len(plans) > 1 and getattr(mod, "needs_pristine_reference", lambda p_: False)(plans[-1].get("prop")):
        # the last run once more, alone, in a process that has run nothing
        ref = fork_call(lambda: mod.pristine_reference(plans[-1]))
        mod.compare_pristine(rec, ref)
    return rec


def shrink_chain(mod, plans, sig, budget=60):
    """Drop earlier runs while the last one still shows the violation."""
    used = 0
    best = list(plans)
    improved = True
    while improved and used < budget and len(best) > 1:
        improved = False
        n = len(best) - 1
        cands = []
        if n >= 4:
            cands.append(best[n // 2 :])
            cands.append(best[: n // 2] + best[-1:])
        for i in range(n):
            cands.append(best[:i] + best[i + 1 :])
        for c in cands:
            if used >= budget:
                break
            used += 1
            try:
                rec = run_chain(mod, c)
            except HarnessError:
                continue
            if reproduces(rec, sig):
                best = c
                improved = True
                break
    return best, used
