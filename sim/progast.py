"""R1: program AST, renderer (with layout noise) and the reference resolver.

The AST mirrors the Jaqal grammar and is JSON-able:

prog  = {"lets": [[name, value]...], "reg": [name, size], "maps": [MAP...],
         "pulses": None | module-name, "macros": [{"name","params":[..],"body":BLOCK}],
         "body": [STMT...]}
size  = int | let-name
MAP   = {"name","src","kind":"whole"} | {.., "kind":"single","idx":IDX}
        | {.., "kind":"slice","start":IDX|None,"stop":IDX|None,"step":IDX|None}
IDX   = int | identifier (let or macro parameter)
STMT  = {"k":"gate","name","args":[ARG...]}            (also macro calls, prepare_all, measure_all)
        | {"k":"seq","body":[STMT...]} | {"k":"par","body":[STMT...]}
        | {"k":"loop","count":IDX,"body":BLOCK} | {"k":"sub","count":IDX|None,"body":[STMT...]}
BLOCK = a "seq" or "par" STMT
ARG   = ["id", name] | ["item", name, IDX] | ["num", value]

Nothing here imports jaqalpaq: this is the ground truth of the execution engine.
"""
import math

from . import gateset as GS


class Invalid(Exception):
    """The AST is not a valid (executable) Jaqal program under the given environment."""


# --------------------------------------------------------------------------------------
# numbers


def fmt_num(v):
    """Render a number so that the Jaqal lexer reads back exactly this value."""
    if isinstance(v, bool):
        raise TypeError(v)
    if isinstance(v, int):
        return str(v)
    r = repr(float(v))
    if "inf" in r or "nan" in r:
        raise ValueError(v)
    if "e" in r or "E" in r:
        mant, ex = r.lower().split("e")
        if "." not in mant:
            mant += ".0"
        return mant + "e" + ex
    if "." not in r:
        r += ".0"
    return r


# --------------------------------------------------------------------------------------
# rendering


class Layout:
    """Layout choices drawn from a tape; Layout(None) is the canonical layout."""

    def __init__(self, tape=None, noise=0.0, block_comment=True):
        if not noise:
            tape = None
        self.tape = tape
        self.noise = noise if tape is not None else 0.0
        self.block_comment_left = 3 if (block_comment and tape is not None) else 0

    def chance(self, p):
        if self.tape is None or self.noise <= 0:
            return False
        return self.tape.random() < p * self.noise

    def pick(self, seq):
        if self.tape is None:
            return seq[0]
        return self.tape.choice(seq)

    def ws(self):
        if self.chance(0.15):
            return self.pick([" ", "  ", "\t", " \t "])
        return " "

    def seqsep(self):
        # newline is canonical
        if self.chance(0.35):
            s = self.pick([";", " ; ", ";\n", "\n\n", ";;", "\n;\n", " ;"])
        else:
            s = "\n"
        if s.startswith("\n") and self.chance(0.12):
            s = " // " + self.pick(["c", "note; { < |", "x /* y"]) + s
        return s

    def parsep(self):
        if self.chance(0.5):
            return self.pick(["\n", " |\n", "\n\n", " || ", "\n|"])
        return " | "

    def gap(self):
        """Something legal between two tokens of one statement."""
        if self.block_comment_left and self.chance(0.05):
            self.block_comment_left -= 1
            # (the usual spelling, banner styles with several stars, the empty comment)
            op, cl = self.pick([("/* ", " */"), ("/* ", " */"), ("/** ", " **/"), ("/* ", " ****/"), ("/*** ", " ***/"), ("/*", "*/"), ("/** ", " */")])
            return " " + op + self.pick(["k", "a\nb", "; } >", "//", "*", "* x *", ""]) + cl + " "
        return self.ws()


def render_idx(v):
    return v if isinstance(v, str) else str(v)


def render_arg(a):
    if a[0] == "id":
        return a[1]
    if a[0] == "item":
        return "%s[%s]" % (a[1], render_idx(a[2]))
    if a[0] == "num":
        return fmt_num(a[1])
    if a[0] == "raw":
        return a[1]  # a literal written verbatim (used by fault injection only)
    raise ValueError(a)


def render_stmt(s, lay, depth=0):
    k = s["k"]
    ind = "\t" * depth if lay.tape is None else lay.pick(["", " ", "\t", "  "])
    if k == "gate":
        parts = [s["name"]] + [render_arg(a) for a in s["args"]]
        out = parts[0]
        for p in parts[1:]:
            out += lay.gap() + p
        return ind + out
    if k == "seq":
        return ind + render_block(s, lay, depth)
    if k == "par":
        return ind + render_block(s, lay, depth)
    if k == "loop":
        return ind + "loop" + lay.gap() + render_idx(s["count"]) + lay.ws() + render_block(s["body"], lay, depth)
    if k == "sub":
        head = "subcircuit"
        if s.get("count") is not None:
            head += lay.gap() + render_idx(s["count"])
        return ind + head + lay.ws() + render_block({"k": "seq", "body": s["body"]}, lay, depth)
    raise ValueError(k)


def render_block(b, lay, depth):
    par = b["k"] == "par"
    op, cl = ("<", ">") if par else ("{", "}")
    items = [render_stmt(x, lay, depth + 1) for x in b["body"]]
    if not items:
        return op + lay.pick([" ", "", "\n"]) + cl if lay.tape is not None else op + " " + cl
    sep = lay.parsep if par else lay.seqsep
    out = op
    out += "\n" if lay.tape is None else lay.pick(["\n", " ", "\n\n", " "])
    for i, it in enumerate(items):
        out += it
        if i + 1 < len(items):
            out += sep()
        else:
            # optional trailing separator
            if lay.chance(0.25):
                out += sep()
            else:
                out += "\n" if lay.tape is None else lay.pick(["\n", " "])
    out += ("\t" * depth if lay.tape is None else "") + cl
    return out


def render_map(m):
    k = m["kind"]
    if k == "whole":
        return "map %s %s" % (m["name"], m["src"])
    if k == "single":
        return "map %s %s[%s]" % (m["name"], m["src"], render_idx(m["idx"]))
    f = lambda v: "" if v is None else render_idx(v)
    s = "%s:%s" % (f(m["start"]), f(m["stop"]))
    if m["step"] is not None:
        s += ":" + render_idx(m["step"])
    return "map %s %s[%s]" % (m["name"], m["src"], s)


def render(prog, lay=None):
    """AST -> Jaqal text."""
    lay = lay or Layout(None)
    hdr = []
    if prog.get("pulses"):
        hdr.append("from %s usepulses *" % prog["pulses"])
    for name, v in prog["lets"]:
        hdr.append("let" + lay.ws() + name + lay.gap() + fmt_num(v))
    for xr in prog.get("extra_regs") or []:
        # (only ever present in deliberately illegal C16 texts: Jaqal has one register)
        hdr.append("register %s[%s]" % (xr[0], render_idx(xr[1])))
    if prog.get("reg"):
        hdr.append("register %s[%s]" % (prog["reg"][0], render_idx(prog["reg"][1])))
    for m in prog["maps"]:
        hdr.append(render_map(m))
    out = ""
    if lay.chance(0.2):
        out += lay.pick(["\n", "// header\n", "\n\n", ";\n"])
    for h in hdr:
        out += h + lay.seqsep()
    for m in prog["macros"]:
        out += (
            "macro"
            + lay.ws()
            + " ".join([m["name"]] + list(m["params"]))
            + lay.ws()
            + render_block(m["body"], lay, 0)
            + lay.seqsep()
        )
    for s in prog["body"]:
        out += render_stmt(s, lay, 0) + lay.seqsep()
    if not out.endswith("\n") and (lay.tape is None or not lay.chance(0.3)):
        out += "\n"
    return out


# --------------------------------------------------------------------------------------
# small AST utilities


def walk(stmts):
    """Yield every statement node (pre-order) in a list of statements."""
    for s in stmts:
        yield s
        k = s["k"]
        if k in ("seq", "par", "sub"):
            yield from walk(s["body"])
        elif k == "loop":
            yield from walk([s["body"]])


def all_statements(prog):
    for m in prog["macros"]:
        yield from walk([m["body"]])
    yield from walk(prog["body"])


def count_nodes(prog):
    return sum(1 for _ in all_statements(prog))


def has_kind(prog, kind):
    return any(s["k"] == kind for s in all_statements(prog))


def spell_out_subcircuits(prog):
    """Spelling B of C09: every `subcircuit {B}` written `prepare_all; B; measure_all`
    spliced into the surrounding sequential context."""
    import copy

    p = copy.deepcopy(prog)

    def fix_list(lst):
        out = []
        for s in lst:
            k = s["k"]
            if k == "sub":
                out.append({"k": "gate", "name": "prepare_all", "args": []})
                out.extend(fix_list(s["body"]))
                out.append({"k": "gate", "name": "measure_all", "args": []})
            else:
                fix(s)
                out.append(s)
        return out

    def fix(s):
        k = s["k"]
        if k in ("seq", "par"):
            s["body"] = fix_list(s["body"])
        elif k == "loop":
            fix(s["body"])

    for m in p["macros"]:
        fix(m["body"])
    p["body"] = fix_list(p["body"])
    return p


# --------------------------------------------------------------------------------------
# reference resolver: AST + overrides -> resolved tree
#
# resolved nodes (tuples):
#   ("g", name, qubits(tuple of fundamental indices), nums(tuple), nid)
#   ("prep", nid) / ("meas", nid)
#   ("seq", [nodes]) / ("par", [nodes]) / ("loop", n, node)


class Resolved:
    def __init__(self):
        self.n = None  # register size
        self.tree = None
        self.env = None
        self.features = set()
        self.alias_depth = 0


def _is_intlike(v):
    return isinstance(v, int) and not isinstance(v, bool)


def resolve(prog, overrides=None, executable=True, anon=False):
    """Evaluate the header and expand the body by call-by-substitution.

    Raises Invalid if the program is not a valid program (and, with executable=True,
    not one the emulator is obliged to run: bracket discipline, distinct qubits,
    disjoint parallel branches)."""
    overrides = overrides or {}
    R = Resolved()
    lets = {}
    names = set()
    for name, v in prog["lets"]:
        if name in names:
            raise Invalid("duplicate name %s" % name)
        names.add(name)
        lets[name] = overrides.get(name, v)
    for k in overrides:
        if k not in lets:
            raise Invalid("override of undeclared let %s" % k)
    R.env = dict(lets)

    def let_int(v, what):
        if isinstance(v, str):
            if v not in lets:
                raise Invalid("%s: unknown let %s" % (what, v))
            v = lets[v]
        if not _is_intlike(v):
            raise Invalid("%s: not an integer: %r" % (what, v))
        return v

    if not prog.get("reg"):
        raise Invalid("no register")
    rname, rsize = prog["reg"]
    if rname in names:
        raise Invalid("duplicate name %s" % rname)
    names.add(rname)
    n = let_int(rsize, "register size")
    if n < 1:
        raise Invalid("register size %r" % n)
    if isinstance(rsize, str):
        R.features.add("let_sized_register")
    R.n = n
    regs = {rname: list(range(n))}
    singles = {}
    depth = {rname: 0}
    for m in prog["maps"]:
        nm = m["name"]
        if nm in names:
            raise Invalid("duplicate name %s" % nm)
        names.add(nm)
        src = m["src"]
        if src not in regs:
            raise Invalid("map source %s is not a register" % src)
        base = regs[src]
        d = depth[src] + 1
        R.alias_depth = max(R.alias_depth, d)
        if m["kind"] == "whole":
            regs[nm] = list(base)
            depth[nm] = d
        elif m["kind"] == "single":
            i = let_int(m["idx"], "map index")
            if not 0 <= i < len(base):
                raise Invalid("map index out of range")
            singles[nm] = base[i]
        else:
            start = 0 if m["start"] is None else let_int(m["start"], "slice start")
            stop = len(base) if m["stop"] is None else let_int(m["stop"], "slice stop")
            step = 1 if m["step"] is None else let_int(m["step"], "slice step")
            if step < 1 or start < 0 or stop > len(base) or start >= stop:
                raise Invalid("bad slice %r:%r:%r of %d" % (start, stop, step, len(base)))
            regs[nm] = base[start:stop:step]
            depth[nm] = d
            if step > 1:
                R.features.add("strided_slice")
            if any(isinstance(m[x], str) for x in ("start", "stop", "step")):
                R.features.add("let_slice_bound")
    if R.alias_depth >= 2:
        R.features.add("alias_chain_depth>=2")

    macros = {}
    nid = [0]

    def new_id():
        nid[0] += 1
        return nid[0]

    def lookup(name, scope):
        if name in scope:
            return scope[name]
        if name in lets:
            return ("n", lets[name])
        if name in singles:
            return ("q", singles[name])
        if name in regs:
            return ("r", tuple(regs[name]))
        raise Invalid("unknown identifier %s" % name)

    def idx_value(v, scope, what):
        if isinstance(v, str):
            b = lookup(v, scope)
            if b[0] != "n":
                raise Invalid("%s: %s is not a number" % (what, v))
            v = b[1]
        if not _is_intlike(v):
            raise Invalid("%s: not an integer %r" % (what, v))
        return v

    def arg_value(a, scope):
        if a[0] == "num":
            return ("n", a[1])
        if a[0] == "id":
            return lookup(a[1], scope)
        if a[0] == "item":
            b = lookup(a[1], scope)
            if b[0] != "r":
                raise Invalid("indexing non-register %s" % a[1])
            i = idx_value(a[2], scope, "index")
            if not 0 <= i < len(b[1]):
                raise Invalid("index %d out of range for %s" % (i, a[1]))
            return ("q", b[1][i])
        raise Invalid("bad arg %r" % (a,))

    def do_stmt(s, scope, stack):
        k = s["k"]
        if k == "gate":
            name = s["name"]
            if name == "prepare_all":
                if s["args"]:
                    raise Invalid("prepare_all takes no args")
                return ("prep", new_id())
            if name == "measure_all":
                if s["args"]:
                    raise Invalid("measure_all takes no args")
                return ("meas", new_id())
            if name in macros:
                m = macros[name]
                if name in stack:
                    raise Invalid("recursive macro")
                if len(m["params"]) != len(s["args"]):
                    raise Invalid("macro arity")
                vals = [arg_value(a, scope) for a in s["args"]]
                if any(v[0] == "r" for v in vals):
                    R.features.add("register_macro_arg")
                new_scope = dict(zip(m["params"], vals))
                R.features.add("macro_call")
                if stack:
                    R.features.add("macro_calls_macro")
                return do_stmt(m["body"], new_scope, stack + (name,))
            base = GS.base_name(name)
            if base not in GS.SIGS:
                if anon:
                    vals = tuple(arg_value(a, scope) for a in s["args"])
                    R.features.add("anonymous_gate")
                    return ("g", name, (), vals, new_id())
                raise Invalid("unknown gate %s" % name)
            sg = GS.SIGS[base]
            if len(sg) != len(s["args"]):
                raise Invalid("gate arity %s" % name)
            qs, nums = [], []
            for kind, a in zip(sg, s["args"]):
                v = arg_value(a, scope)
                if kind == "q":
                    if v[0] != "q":
                        raise Invalid("%s: expected qubit" % name)
                    qs.append(v[1])
                else:
                    if v[0] != "n":
                        raise Invalid("%s: expected number" % name)
                    x = v[1]
                    if kind == "i" and not (_is_intlike(x) or (isinstance(x, float) and x == int(x))):
                        raise Invalid("%s: expected integer" % name)
                    nums.append(x)
            if len(set(qs)) != len(qs):
                raise Invalid("%s: repeated qubit" % name)
            if GS.is_idle(name):
                R.features.add("idle_gate")
            if base in GS.NO_UNITARY:
                R.features.add("gate_without_unitary")
            return ("g", name, tuple(qs), tuple(nums), new_id())
        if k == "seq":
            return ("seq", [do_stmt(x, scope, stack) for x in s["body"]])
        if k == "par":
            R.features.add("parallel_block")
            if len(s["body"]) >= 3:
                R.features.add("parallel_block_3_branches")
            return ("par", [do_stmt(x, scope, stack) for x in s["body"]])
        if k == "loop":
            c = idx_value(s["count"], scope, "loop count")
            if c < 0:
                raise Invalid("negative loop count")
            R.features.add("loop")
            if isinstance(s["count"], str):
                R.features.add("loop_count_by_name")
            if c == 0:
                R.features.add("zero_loop")
            return ("loop", c, do_stmt(s["body"], scope, stack))
        if k == "sub":
            if s.get("count") is not None:
                c = idx_value(s["count"], scope, "subcircuit count")
                if c < 0:
                    raise Invalid("negative subcircuit count")
            R.features.add("subcircuit_block")
            body = [do_stmt(x, scope, stack) for x in s["body"]]
            return ("seq", [("prep", new_id())] + body + [("meas", new_id())])
        raise Invalid("bad statement kind %r" % k)

    for m in prog["macros"]:
        if m["name"] in macros or m["name"] in GS.SIGS or m["name"] in GS.BUSY:
            raise Invalid("macro redefinition")
        if len(set(m["params"])) != len(m["params"]):
            raise Invalid("duplicate macro parameter")
        macros[m["name"]] = m
    # later macros may only call earlier ones: enforce by definition order
    order = {m["name"]: i for i, m in enumerate(prog["macros"])}
    for m in prog["macros"]:
        for s in walk([m["body"]]):
            if s["k"] == "gate" and s["name"] in order and order[s["name"]] >= order[m["name"]]:
                raise Invalid("macro calls later macro")

    # static check of every definition (called or not): a concrete index into a concrete
    # register or alias must be in range under the environment
    for m in prog["macros"]:
        ps = set(m["params"])
        for s in walk([m["body"]]):
            if s["k"] in ("loop", "sub"):
                c_ = s.get("count")
                if isinstance(c_, str) and c_ not in ps:
                    if c_ not in lets:
                        raise Invalid("unknown count %s in macro" % c_)
                    c_ = lets[c_]
                if c_ is not None and not isinstance(c_, str) and (not _is_intlike(c_) or c_ < 0):
                    raise Invalid("bad count in macro definition")
            if s["k"] != "gate":
                continue
            base_ = GS.base_name(s["name"])
            if base_ in GS.SIGS and len(GS.SIGS[base_]) == len(s["args"]):
                for kind_, a in zip(GS.SIGS[base_], s["args"]):
                    if a[0] == "id" and a[1] not in ps and a[1] in lets:
                        x_ = lets[a[1]]
                        if kind_ == "q" or (kind_ == "i" and not (_is_intlike(x_) or (isinstance(x_, float) and x_ == int(x_)))):
                            raise Invalid("let of the wrong kind as gate argument in a definition")
                    if a[0] == "num" and kind_ == "i" and not (_is_intlike(a[1]) or (isinstance(a[1], float) and a[1] == int(a[1]))):
                        raise Invalid("non-integer literal for an integer parameter")
            for a in s["args"]:
                if a[0] == "item" and (a[1] in ps or a[2] in ps):
                    R.features.add("param_indexing")
                if a[0] == "item" and a[1] not in ps:
                    if a[1] not in regs:
                        raise Invalid("indexing non-register %s in macro" % a[1])
                    ix = a[2]
                    if isinstance(ix, str):
                        if ix in ps:
                            continue
                        if ix not in lets:
                            raise Invalid("unknown index %s" % ix)
                        ix = lets[ix]
                    if not _is_intlike(ix) or not 0 <= ix < len(regs[a[1]]):
                        raise Invalid("index out of range in macro definition")
                elif a[0] == "id" and a[1] not in ps and a[1] not in lets and a[1] not in singles and a[1] not in regs:
                    raise Invalid("unknown identifier %s in macro" % a[1])
                elif a[0] == "id" and a[1] not in ps and a[1] in regs:
                    R.features.add("register_macro_arg")

    if param_hides_register(prog):
        R.features.add("param_hides_register")
    R.tree = ("seq", [do_stmt(s, {}, ()) for s in prog["body"]])
    check_structure(prog)
    if executable:
        check_executable(R)
    return R


def check_structure(prog):
    """Grammar/builder nesting rules: no subcircuit (directly or through a macro) inside a
    subcircuit or a parallel block; seq/par alternate."""
    has_sub = {}
    for m in prog["macros"]:
        hs = False
        for s in walk([m["body"]]):
            if s["k"] == "sub" or (s["k"] == "gate" and has_sub.get(s["name"])):
                hs = True
        has_sub[m["name"]] = hs

    def chk(s, in_sub, in_par, parent):
        k = s["k"]
        if k == "sub" or (k == "gate" and has_sub.get(s["name"])):
            if in_sub or in_par:
                raise Invalid("subcircuit nested in subcircuit/parallel")
        if k == "seq":
            if parent == "seq":
                raise Invalid("seq directly in seq")
            for x in s["body"]:
                chk(x, in_sub, in_par, "seq")
        elif k == "par":
            if parent == "par":
                raise Invalid("par directly in par")
            for x in s["body"]:
                if x["k"] not in ("gate", "seq"):
                    raise Invalid("illegal statement in parallel block")
                chk(x, in_sub, True, "par")
        elif k == "loop":
            if parent == "par":
                raise Invalid("loop directly in par")
            chk(s["body"], in_sub, in_par, "loopbody")
        elif k == "sub":
            if parent == "par":
                raise Invalid("sub in par")
            for x in s["body"]:
                chk(x, True, in_par, "seq")

    for m in prog["macros"]:
        chk(m["body"], False, False, "macro")
    for s in prog["body"]:
        chk(s, False, False, "top")


def used_qubits(node, n):
    k = node[0]
    if k == "g":
        if GS.is_idle(node[1]):
            return set()
        return set(node[2])
    if k in ("prep", "meas"):
        return set(range(n))
    if k in ("seq", "par"):
        out = set()
        for x in node[1]:
            out |= used_qubits(x, n)
        return out
    if k == "loop":
        return used_qubits(node[2], n)
    raise ValueError(k)


def param_hides_register(prog):
    """A macro one of whose parameters is named like the register, and whose body names a
    map alias: alias fill-in would have to write `reg[i]` where `reg` means the parameter
    (F45: fill_in_map refuses)."""
    if not prog.get("reg"):
        return False
    rname = prog["reg"][0]
    aliases = {m["name"] for m in prog["maps"]}
    for m in prog["macros"]:
        if rname not in m["params"]:
            continue
        for st in all_statements({"macros": [], "body": [m["body"]], "lets": [], "maps": [], "reg": prog["reg"]}):
            if st["k"] == "gate" and any(a[0] in ("id", "item") and a[1] in aliases and a[1] not in m["params"] for a in st["args"]):
                return True
    return False


def check_executable(R):
    """Bracket discipline (within the documented bound: a bracket's prepare and measure
    share their chain of enclosing loops) and disjoint parallel branches."""
    n = R.n

    def par_check(node):
        k = node[0]
        if k == "par":
            seen = set()
            for b in node[1]:
                u = used_qubits(b, n)
                if u & seen:
                    raise Invalid("parallel branches overlap")
                seen |= u
        if k in ("seq", "par"):
            for x in node[1]:
                par_check(x)
        elif k == "loop":
            par_check(node[2])

    par_check(R.tree)

    # bracket discipline: simulate the flat walk; state = open?; loops must be balanced
    def flat(node, open_):
        k = node[0]
        if k == "prep":
            if open_:
                R.features.add("repeated_prepare")
            return True
        if k == "meas":
            if not open_:
                raise Invalid("measure without prepare")
            return False
        if k == "g":
            if not open_:
                raise Invalid("gate outside bracket")
            return open_
        if k in ("seq", "par"):
            for x in node[1]:
                open_ = flat(x, open_)
            return open_
        if k == "loop":
            after = flat(node[2], open_)
            if after != open_:
                raise Invalid("loop body changes bracket state")
            # a loop entered with an open bracket must not contain prepare/measure
            if open_ and contains_pm(node[2]):
                raise Invalid("bracket boundary inside loop entered with open bracket")
            return open_
        raise ValueError(k)

    def contains_pm(node):
        k = node[0]
        if k in ("prep", "meas"):
            return True
        if k in ("seq", "par"):
            return any(contains_pm(x) for x in node[1])
        if k == "loop":
            return contains_pm(node[2])
        return False

    # the sloppy gate scales the norm; keep the accumulated error far below the library's
    # own failure threshold (2e-6)
    def sloppy(node):
        k = node[0]
        if k == "g":
            return 1 if GS.base_name(node[1]) == "Hs" and not GS.is_idle(node[1]) else 0
        if k in ("seq", "par"):
            return sum(sloppy(x) for x in node[1])
        if k == "loop":
            return node[1] * sloppy(node[2])
        return 0

    if sloppy(R.tree) > 30:
        raise Invalid("too many applications of the sloppy gate")
    if sloppy(R.tree):
        R.features.add("sloppy_gate")

    end_open = flat(R.tree, False)
    if end_open:
        R.features.add("trailing_prepare")


def canonical_json(obj):
    import json

    return json.dumps(obj, sort_keys=True, separators=(",", ":"))
