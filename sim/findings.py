"""Known findings: genuine defects of the tree under test that are recorded rather than
repaired.  The list lives in /verif/known_findings.json (read-only at run time); the
predicates that identify a finding by the specific failing input live here."""
import json
import os

from . import seams

PATH = os.path.join(seams.VERIF_DIR, "known_findings.json")


def load():
    try:
        with open(PATH) as f:
            return json.load(f)
    except FileNotFoundError:
        return {"findings": [], "fixed": []}


PREDICATES = {}


def predicate(name):
    def deco(fn):
        PREDICATES[name] = fn
        return fn

    return deco


def match(prop, violation, plan, rec=None):
    """-> the finding entry that lists this violation, or None."""
    for f in load().get("findings", []):
        if f["property"] != prop:
            continue
        m = f.get("match", {})
        if "oracle" in m and m["oracle"] != violation["oracle"]:
            continue
        if "cls" in m and m["cls"] != violation["cls"]:
            continue
        if "where" in m and m["where"] != violation.get("where"):
            continue
        pred = m.get("predicate")
        if pred:
            fn = PREDICATES.get(pred)
            if fn is None or not fn(plan, violation, rec):
                continue
        return f
    return None
