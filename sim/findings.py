"""Known findings: genuine defects of the tree under test that are recorded rather than
repaired.  The list lives in /verif/known_findings.json (read-only at run time); the
predicates that identify a finding by the specific failing input live here."""
import json
import os

from . import seams

PATH = os.path.join(seams.VERIF_DIR, "known_findings.json")


def load():
    try:
        with open(PATH) as f:
            return json.load(f)
    except FileNotFoundError:
        return {"findings": [], "fixed": []}


PREDICATES = {}


def predicate(name):
    def deco(fn):
        PREDICATES[name] = fn
        return fn

    return deco


def match(prop, violation, plan, rec=None):
    """-> the finding entry that lists this violation, or None."""
    for f in load().get("findings", []):
        if f["property"] != prop:
            continue
        m = f.get("match", {})
        if "oracle" in m and m["oracle"] != violation["oracle"]:
            continue
        if "cls" in m and m["cls"] != violation["cls"]:
            continue
        if "where" in m and m["where"] != violation.get("where"):
            continue
        pred = m.get("predicate")
        if pred:
            fn = PREDICATES.get(pred)
            if fn is None or not fn(plan, violation, rec):
                continue
        return f
    return None


# --------------------------------------------------------------------------------------
# F15: fill_in_map resolves let-valued indices/bounds with the *declared* value; a later
# fill_in_let override has nothing left to act on.


def _index_lets(prog):
    """Names of lets used as a qubit index or alias bound/index anywhere in the program."""
    names = set()
    letnames = {n for n, _ in prog["lets"]}
    for m in prog["maps"]:
        for k in ("idx", "start", "stop", "step"):
            v = m.get(k)
            if isinstance(v, str) and v in letnames:
                names.add(v)
    from .progast import all_statements

    for s in all_statements(prog):
        if s["k"] == "gate":
            for a in s["args"]:
                if a[0] == "item" and isinstance(a[2], str) and a[2] in letnames:
                    names.add(a[2])
    if isinstance(prog["reg"][1], str):
        names.add(prog["reg"][1])
    return names


def f15_possible(plan, violation, rec):
    """The cheap half of the F15 predicate (no execution): could F15 explain this at all?"""
    if plan.get("prop") != "C10":
        return False
    orders = violation.get("orders")
    used = violation.get("override_used")
    if used is None:
        used = plan.get("override") or {}
    if not orders:
        return True

    def a_before_l(o):
        ia = o.find("A")
        il = o.find("L")
        return ia >= 0 and (il < 0 or ia < il)

    if a_before_l(orders[0]) == a_before_l(orders[1]):
        return False
    prog = plan["texts"][0]["prog"]
    declared = dict((n, v) for n, v in prog["lets"])
    changed = {k for k, v in used.items() if k in declared and declared[k] != v}
    return bool(changed & _index_lets(prog))


CHEAP = {"f15_map_before_overriding_let": f15_possible}


def surely_unlisted(prop, violation, plan):
    """True when no listed finding can explain this violation, decided without executing
    anything (used to pick which members of a group to re-examine first)."""
    for f in load().get("findings", []):
        if f["property"] != prop:
            continue
        m = f.get("match", {})
        if "oracle" in m and m["oracle"] != violation["oracle"]:
            continue
        if "cls" in m and m["cls"] != violation["cls"]:
            continue
        fn = CHEAP.get(m.get("predicate"))
        if fn is None or fn(plan, violation, None):
            return False
    return True


@predicate("f15_map_before_overriding_let")
def f15(plan, violation, rec):
    if plan.get("prop") != "C10":
        return False
    orders = None
    used = None
    for v in (rec or {}).get("violations", []):
        if v.get("oracle") == "passes_commute" and v.get("orders"):
            orders = v["orders"]
            used = v.get("override_used")
            break
    orders = orders or violation.get("orders")
    if used is None:
        used = violation.get("override_used")
    if used is None:
        used = plan.get("override") or {}
    if not orders:
        return False

    def a_before_l(o):
        ia = o.find("A")
        il = o.find("L")
        return ia >= 0 and (il < 0 or ia < il)

    if a_before_l(orders[0]) == a_before_l(orders[1]):
        return False
    prog = plan["texts"][0]["prog"]
    declared = dict((n, v) for n, v in prog["lets"])
    changed = {k for k, v in used.items() if k in declared and declared[k] != v}
    culprits = changed & _index_lets(prog)
    if not culprits:
        return False
    # the mismatch must disappear once the index lets keep their declared values
    import copy
    from . import shrink, engine_session

    p2 = copy.deepcopy(plan)
    p2["override"] = {k: v for k, v in (plan.get("override") or {}).items() if k not in culprits}
    if p2.get("override2") is not None:
        p2["override2"] = {k: v for k, v in p2["override2"].items() if k not in culprits}
    p2["tapes"] = None
    try:
        r2 = shrink.run_plan(engine_session, p2)
    except Exception:
        return False
    return not any(v["prop"] == "C10" and v["oracle"] == "passes_commute" for v in r2["violations"])


# --------------------------------------------------------------------------------------
# F54: `map x b[:]` (a defaulted slice stop) of an alias b whose own bounds are let-valued:
# the builder writes the stop as b's size under the *declared* let values, so an override
# that shrinks b makes fill_in_let reject the valid program ("Index out of range.").


def _f54_culprits(prog, used):
    if not prog or not prog.get("maps"):
        return set()
    maps = {m["name"]: m for m in prog["maps"]}
    declared = dict((n, v) for n, v in prog["lets"])
    changed = {k for k, v in (used or {}).items() if k in declared and declared[k] != v}
    culprits = set()
    for m in prog["maps"]:
        if m.get("kind") == "slice" and m.get("stop") is None and m.get("src") in maps:
            src = m["src"]
            seen = set()
            while src in maps and src not in seen:
                seen.add(src)
                mm = maps[src]
                for k in ("start", "stop", "step", "idx"):
                    if isinstance(mm.get(k), str) and mm[k] in changed:
                        culprits.add(mm[k])
                src = mm.get("src")
    return culprits


def _f54_prog_and_used(plan):
    if plan.get("prop") in ("C10", "C11", "C16") or plan.get("engine") == "E1":
        texts = plan.get("texts") or [{}]
        prog = texts[0].get("prog")
        used = dict(plan.get("override") or {})
        used.update(plan.get("override2") or {})
        return prog, used, ("override", "override2")
    return plan.get("prog"), dict(plan.get("overrides") or {}), ("overrides",)


def f54_possible(plan, violation, rec):
    prog, used, _ = _f54_prog_and_used(plan)
    return bool(_f54_culprits(prog, used))


CHEAP["f54_defaulted_stop_baked"] = f54_possible


@predicate("f54_defaulted_stop_baked")
def f54(plan, violation, rec):
    prog, used, keys = _f54_prog_and_used(plan)
    culprits = _f54_culprits(prog, used)
    if not culprits:
        return False
    # the failure must disappear once those lets keep their declared values
    import copy
    from . import shrink

    p2 = copy.deepcopy(plan)
    for k in keys:
        if p2.get(k):
            p2[k] = {n: v for n, v in p2[k].items() if n not in culprits}
    p2["tapes"] = None
    mod = __import__("sim.engine_session" if plan.get("engine") == "E1" else "sim.engine_exec", fromlist=["x"])
    try:
        r2 = shrink.run_plan(mod, p2)
    except Exception:
        return False
    return not any(v["oracle"] == violation["oracle"] and v.get("where") == violation.get("where") and v["cls"] == violation["cls"] for v in r2["violations"])
