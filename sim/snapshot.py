"""R4: deep snapshot of an object graph.

identity=True : objects are numbered in first-visit order and revisits become ('ref', n),
                so the *sharing structure* is part of the snapshot (C11: nothing reachable
                from an input may change, including what is shared with what).
identity=False: revisits are expanded again (cycle-safe), giving a value digest that does
                not depend on how much structure two results happen to share.

It uses neither the library's __eq__ nor __repr__ nor the generator, so a weakened __eq__
cannot blind it.  Strings containing the run's scratch directory are normalised.
"""
import enum
import hashlib
import types

SCRATCH = []  # path prefixes replaced by <SCRATCH>


def _s(v):
    for p in SCRATCH:
        if p in v:
            v = v.replace(p, "<SCRATCH>")
    return v


def snap(root, identity=True, skip_attrs=()):
    seen = {}
    stack = set()

    def go(o):
        if o is None or isinstance(o, (bool, int)):
            return (type(o).__name__, o)
        if isinstance(o, str):
            return ("str", _s(o))
        if isinstance(o, bytes):
            return ("bytes", o)
        if isinstance(o, float):
            return ("float", repr(o))
        if isinstance(o, complex):
            return ("complex", repr(o))
        if o is all:
            return ("builtin", "all")
        if isinstance(o, enum.Enum):
            return ("enum", str(o))
        if isinstance(o, (types.FunctionType, types.BuiltinFunctionType, types.MethodType, type)):
            return ("callable", getattr(o, "__qualname__", str(o)))
        if isinstance(o, types.ModuleType):
            return ("module", o.__name__)
        i = id(o)
        if identity:
            if i in seen:
                return ("ref", seen[i])
            seen[i] = len(seen)
            n = seen[i]
        else:
            if i in stack:
                return ("cycle",)
            stack.add(i)
            n = 0
        try:
            if isinstance(o, dict):
                return ("dict", n, tuple((go(k), go(v)) for k, v in o.items()))
            if isinstance(o, (list, tuple)):
                return (type(o).__name__, n, tuple(go(v) for v in o))
            if isinstance(o, (set, frozenset)):
                return ("set", n, tuple(sorted(repr(go(v)) for v in o)))
            if isinstance(o, slice):
                return ("slice", n, go(o.start), go(o.stop), go(o.step))
            try:
                import numpy

                if isinstance(o, numpy.ndarray):
                    return ("nd", n, o.shape, str(o.dtype), o.tobytes())
                if isinstance(o, numpy.generic):
                    return ("npg", repr(o))
            except ImportError:
                pass
            if hasattr(o, "__fspath__"):
                return ("path", _s(str(o)))
            d = getattr(o, "__dict__", None)
            if d is not None:
                return ("obj", type(o).__name__, n, tuple((k, go(v)) for k, v in d.items() if k not in skip_attrs))
            if isinstance(o, (types.GeneratorType,)):
                return ("generator",)
            return ("opaque", type(o).__name__, _s(repr(o)))
        finally:
            if not identity:
                stack.discard(i)

    return go(root)


def digest(root, identity=False, skip_attrs=()):
    return hashlib.sha256(repr(snap(root, identity, skip_attrs)).encode("utf8", "backslashreplace")).hexdigest()[:16]


def diff_path(a, b, path="root", out=None, limit=3):
    """First few paths at which two snapshots differ (for violation details)."""
    if out is None:
        out = []
    if len(out) >= limit:
        return out
    if a == b:
        return out
    if not (isinstance(a, tuple) and isinstance(b, tuple)) or len(a) != len(b) or (a and b and a[0] != b[0]):
        out.append("%s: %.80r != %.80r" % (path, a, b))
        return out
    tag = a[0] if a else None
    if tag == "obj":
        da, db = dict(a[3]), dict(b[3])
        for k in list(da) + [k for k in db if k not in da]:
            if da.get(k) != db.get(k):
                diff_path(da.get(k), db.get(k), "%s.%s" % (path, k), out, limit)
        return out
    for i, (x, y) in enumerate(zip(a, b)):
        if x != y:
            diff_path(x, y, "%s[%d]" % (path, i), out, limit)
    return out
