"""Synthetic native gate set (stub for the qscout pulse definitions).

The *definitions* are real jaqalpaq GateDefinition objects; only the matrices are ours.
SIGS / matrix() are the reference-side view of the same gates: the property under test
is how the emulator applies U_j, not what U_j is, so both sides share the matrix
functions.  Every ideal_unitary goes through CALLBACK, the re-entrancy seam.
"""
import math
import numpy as np

# kinds: q = qubit, f = float, i = int
SIGS = {
    "Rx": "qf",
    "Ry": "qf",
    "Rz": "qf",
    "Sx": "q",
    "H": "q",
    "CX": "qq",
    "CRz": "qqf",
    "MS": "qqff",
    "Mix": "qfq",
    "Rk": "qi",
    "CCX": "qqq",
    "U3r": "qqq",
    "Nop": "q",
    "Hs": "q",
}
NO_UNITARY = {"Nop"}
BUSY = ("prepare_all", "measure_all")

CALLBACK = None  # set by the simulator: CALLBACK(gate_name, args)

# Which of four conventions the parametrised matrices follow.  The simulator switches it
# between runs / operations, so that "the same gate name with the same arguments" does not
# always mean the same matrix (anything the library memoises across calls becomes visible).
# Emulator and reference read the same functions, hence the same variant.
VARIANT = 0


def _v(t):
    v = VARIANT
    return (-t if v & 1 else t) + (0.37 if v & 2 else 0.0)


def _randu(k, seed):
    rs = np.random.RandomState(seed)
    d = 2**k
    m = rs.randn(d, d) + 1j * rs.randn(d, d)
    q, r = np.linalg.qr(m)
    return q


_U2 = _randu(2, 7)
_U3 = _randu(3, 11)


def _cs(x):
    # numpy's functions, as real gate packages use them: an infinite angle (a literal such
    # as 1.0e999) gives NaN entries instead of an exception
    with np.errstate(invalid="ignore"):
        return float(np.cos(x)), float(np.sin(x))


def _rx(t):
    t = _v(t)
    c, s = _cs(t / 2)
    return np.array([[c, -1j * s], [-1j * s, c]])


def _ry(t):
    t = _v(t)
    c, s = _cs(t / 2)
    return np.array([[c, -s], [s, c]], dtype=complex)


def _rz(t):
    t = _v(t)
    return np.array([[np.exp(-0.5j * t), 0], [0, np.exp(0.5j * t)]])


def _sx():
    return _rx(math.pi / 2)


def _h():
    return np.array([[1, 1], [1, -1]], dtype=complex) / math.sqrt(2)


def _hs():
    # a Hadamard typed in with eight digits (norm^2 grows by 2.7e-8 per application): slightly non-unitary, which the library
    # tolerates (it clips and renormalises the probabilities, with a warning)
    return np.array([[0.70710679, 0.70710679], [0.70710679, -0.70710679]], dtype=complex)


def _cx():
    # bit 0 of the matrix index = first argument (control), bit 1 = second (target)
    m = np.zeros((4, 4), dtype=complex)
    for c in (0, 1):
        for t in (0, 1):
            src = c | (t << 1)
            dst = c | ((t ^ c) << 1)
            m[dst, src] = 1
    return m


def _crz(t):
    t = _v(t)
    m = np.eye(4, dtype=complex)
    # control = bit0; applies Rz(t) on target (bit1) when control is 1
    m[1, 1] = np.exp(-0.5j * t)
    m[3, 3] = np.exp(0.5j * t)
    return m


def _ms(phi, theta):
    theta = _v(theta)
    c, s = math.cos(theta / 2), math.sin(theta / 2)
    e = np.exp(1j * 2 * phi)
    m = np.zeros((4, 4), dtype=complex)
    m[0, 0] = m[1, 1] = m[2, 2] = m[3, 3] = c
    m[0, 3] = -1j * s * np.conj(e)
    m[3, 0] = -1j * s * e
    m[1, 2] = -1j * s
    m[2, 1] = -1j * s
    return m


def _mix(t):
    t = _v(t)
    return _U2 @ np.diag([1, np.exp(1j * t), 1, 1])


def _rk(k):
    # clamped: a corrupted program may pass an absurd integer, and 2**huge never returns
    kk = max(-60, min(60, int(k)))
    return np.array([[1, 0], [0, np.exp(2j * math.pi / (2.0**kk))]])


def _ccx():
    m = np.zeros((8, 8), dtype=complex)
    for x in range(8):
        a, b, t = x & 1, (x >> 1) & 1, (x >> 2) & 1
        y = a | (b << 1) | ((t ^ (a & b)) << 2)
        m[y, x] = 1
    return m


def _u3r():
    return _U3


# Matrices that a gate definition may hand out as the SAME stored array on every call (the way
# `ideal_unitary=lambda: SX` does).  The library gets _STORED[name]; the reference side and
# the "unchanged" oracle use _PRISTINE, which never leaves this module.
def _pristine():
    return {"H": np.array(_h(), dtype=complex), "Hs": np.array(_hs(), dtype=complex), "CX": np.array(_cx(), dtype=complex), "CCX": np.array(_ccx(), dtype=complex), "U3r": np.array(_U3, dtype=complex)}


_PRISTINE = _pristine()
_STORED = {k: v.copy() for k, v in _PRISTINE.items()}


def stored_changed():
    """Names of stored matrices that no longer hold what they were created with."""
    return sorted(k for k in _PRISTINE if not np.array_equal(_STORED[k], _PRISTINE[k]))


def restore_stored():
    for k in _PRISTINE:
        _STORED[k][...] = _PRISTINE[k]


_MATS = {
    "Rx": _rx,
    "Ry": _ry,
    "Rz": _rz,
    "Sx": _sx,
    "H": _h,
    "CX": _cx,
    "CRz": _crz,
    "MS": _ms,
    "Mix": _mix,
    "Rk": _rk,
    "CCX": _ccx,
    "U3r": _u3r,
    "Hs": _hs,
}


# Gate names whose definition in force follows a shifted convention (an injected definition
# that must take precedence over an imported one of the same name).
REF_SHIFT = {}


def _shifted(fn, argv, shift):
    global VARIANT
    if not shift:
        return fn(*argv)
    old = VARIANT
    VARIANT = (old + shift) % 4
    try:
        return fn(*argv)
    finally:
        VARIANT = old


def matrix(name, nums):
    """Reference-side matrix of a gate at its classical arguments."""
    if name in _PRISTINE:
        return _PRISTINE[name].copy()
    return np.array(_shifted(_MATS[name], nums, REF_SHIFT.get(name, 0)), dtype=complex)


def base_name(name):
    return name[2:] if name.startswith("I_") else name


def is_idle(name):
    return name.startswith("I_")


def has_unitary(name):
    return (not is_idle(name)) and name not in NO_UNITARY and name not in BUSY


def sig(name):
    if name in BUSY:
        return ""
    return SIGS[base_name(name)]


def all_gate_names(idle=True):
    names = list(SIGS)
    if idle:
        names += ["I_" + n for n in SIGS]
    return names


def build_gateset(idle=True, style="direct", shift=0, stored=False):
    """Real jaqalpaq definitions over the synthetic matrices (import inside: the caller
    decides which jaqalpaq source tree is on sys.path).  style="copied" derives gates of
    equal signature from one another through the public AbstractGate.copy(), the way
    core/stretch.py builds variants."""
    from jaqalpaq.core import GateDefinition, Parameter, ParamType
    from jaqalpaq.core.gatedef import BusyGateDefinition, add_idle_gates

    kinds = {"q": ParamType.QUBIT, "f": ParamType.FLOAT, "i": ParamType.INT}

    def mk(name):
        fn = _MATS.get(name)
        if fn is None:
            return None

        def unitary(*argv, _name=name, _fn=fn):
            cb = CALLBACK
            if cb is not None:
                cb(_name, argv)
            if stored and _name in _STORED:
                return _STORED[_name]  # the same array object on every call
            return _shifted(_fn, argv, shift)

        unitary.__qualname__ = "simgate_" + name
        return unitary

    gates = {}
    first_of_sig = {}
    for name, s in SIGS.items():
        params = [Parameter("p%d" % j, kinds[k]) for j, k in enumerate(s)]
        parent = first_of_sig.get(s)
        if style == "copied" and parent is not None and mk(name) is not None and parent.ideal_unitary is not None:
            gates[name] = parent.copy(name=name, ideal_unitary=mk(name))
        else:
            gates[name] = GateDefinition(name, params, ideal_unitary=mk(name))
            first_of_sig.setdefault(s, gates[name])
    if idle:
        gates = add_idle_gates(gates)
    gates["prepare_all"] = BusyGateDefinition("prepare_all")
    gates["measure_all"] = BusyGateDefinition("measure_all")
    return gates


PULSE_MODULE_SOURCE = '''\
# scratch pulse-definition module generated by the simulator
import sys
if {verif!r} not in sys.path:
    sys.path.append({verif!r})
from sim import gateset as _gs
_cb = _gs.PULSE_TOP_CALLBACK
if _cb is not None:
    _cb({modname!r}, 0)
{pre}
class jaqal_gates:
    ALL_GATES = _gs.build_gateset()
{post}
'''
PULSE_TOP_CALLBACK = None
