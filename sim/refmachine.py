"""R2: reference Jaqal machine.

Executes a resolved tree (progast.resolve) with a task per parallel branch and a seeded
scheduler choosing, at every step, which runnable task advances by one gate.  State-vector
arithmetic is a tensor contraction (deliberately not the emulator's bit twiddling):
axis of qubit i in the reshaped state = n-1-i, bit j of a gate-matrix index = the gate's
j-th qubit argument.
"""
import numpy as np

from . import gateset as GS


def apply_gate(state, n, U, qs):
    k = len(qs)
    psi = state.reshape([2] * n)
    Ut = np.asarray(U, dtype=complex).reshape([2] * (2 * k))
    # Ut axes: row bits (bit k-1 .. bit 0), then column bits (bit k-1 .. bit 0)
    col_axes = [k + (k - 1 - j) for j in range(k)]
    q_axes = [n - 1 - q for q in qs]
    out = np.tensordot(Ut, psi, axes=(col_axes, q_axes))
    rem = [ax for ax in range(n) if ax not in q_axes]
    labels = [("r", j) for j in reversed(range(k))] + [("p", ax) for ax in rem]
    want = [("r", q_axes.index(ax)) if ax in q_axes else ("p", ax) for ax in range(n)]
    return np.transpose(out, [labels.index(w) for w in want]).reshape(2**n)


def contains_pm(node):
    k = node[0]
    if k in ("prep", "meas"):
        return True
    if k in ("seq", "par"):
        return any(contains_pm(x) for x in node[1])
    if k == "loop":
        return contains_pm(node[2])
    return False


class RefRace(Exception):
    """Two schedules of the reference disagree: the *generator* emitted racing branches."""


class Machine:
    def __init__(self, R):
        self.R = R
        self.n = R.n
        self.ticks = 0
        self.gate_events = 0

    def _events(self, node, tape, static):
        k = node[0]
        if k in ("g", "prep", "meas"):
            yield node
        elif k == "seq":
            for x in node[1]:
                yield from self._events(x, tape, static)
        elif k == "loop":
            cnt = node[1]
            if static and contains_pm(node[2]):
                cnt = 1
            for _ in range(cnt):
                yield from self._events(node[2], tape, static)
        elif k == "par":
            tasks = [self._events(b, tape, static) for b in node[1]]
            pending, live = {}, []
            for i, tk in enumerate(tasks):
                try:
                    pending[i] = next(tk)
                    live.append(i)
                except StopIteration:
                    pass
            while live:
                i = live[0] if len(live) == 1 else tape.choice(live)
                yield pending[i]
                try:
                    pending[i] = next(tasks[i])
                except StopIteration:
                    live.remove(i)
        else:
            raise ValueError(k)

    def _run(self, tape, static):
        n = self.n
        state = None
        order = []
        out = []  # (meas node id, state copy)
        for ev in self._events(self.R.tree, tape, static):
            k = ev[0]
            if k == "prep":
                state = np.zeros(2**n, dtype=complex)
                state[0] = 1
            elif k == "meas":
                assert state is not None
                out.append((ev[1], state))
                state = None
            else:
                assert state is not None, "gate outside bracket in reference"
                self.ticks += 1
                self.gate_events += 1
                order.append(ev[4])
                if GS.has_unitary(ev[1]):
                    state = apply_gate(state, n, GS.matrix(ev[1], ev[3]), ev[2])
        return out, order

    def static_pass(self, tape):
        """Every bracket once, in flat order: -> list of state vectors, and the map
        measure-node-id -> flat index."""
        out, order = self._run(tape, True)
        self.flat_of = {nid: i for i, (nid, _) in enumerate(out)}
        self.psi = [st for _, st in out]
        self.static_order = order
        return self.psi

    def dynamic_pass(self, tape, tol=1e-9):
        """Real execution (loops unrolled): -> visit sequence of flat indices."""
        out, order = self._run(tape, False)
        visits = []
        for nid, st in out:
            i = self.flat_of[nid]
            if np.abs(st - self.psi[i]).max() > tol:
                raise RefRace("reference schedules disagree on subcircuit %d" % i)
            visits.append(i)
        self.visits = visits
        self.dynamic_order = order
        return visits

    def probabilities(self):
        """|psi|^2, clipped to [0,1] and renormalised: gate matrices may be slightly
        non-unitary (typed-in constants), and the statement of C15 - probabilities are
        non-negative and sum to one - says what the reported distribution is then."""
        out = []
        for p in self.psi:
            q = np.clip(np.abs(p) ** 2, 0, 1)
            tot = q.sum()
            out.append(q / tot if tot > 0 else q)
        return out
