"""Deterministic-simulation harness for haikusw/jaqalpaq (see /verif/DESIGN.md)."""
