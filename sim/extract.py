"""R3: meaning extractor X over jaqalpaq's IR objects.

Reads only public attributes and returns a canonical tree that is independent of the
library's own __eq__, __repr__ and generator:

  ('g', name, (arg...))   arg = ('n', float) | ('q', reg, idx) | ('r', reg, (idx...))
                                | ('p', param) | ('pi', param, idx)   (inside definitions)
  ('loop', n, body) | ('par', [items]) | ('seq', [items])

A sequential block directly inside a sequential context is spliced (the grammar cannot
express it, so it carries no meaning); a subcircuit block is seq[prepare_all, ..,
measure_all] with its count collected separately; macro calls are expanded by X's own
call-by-substitution; constants not yet substituted are looked up in env.
"""


class Unresolvable(Exception):
    pass


def _types():
    from jaqalpaq.core.constant import Constant
    from jaqalpaq.core.parameter import Parameter, AnnotatedValue
    from jaqalpaq.core.register import Register, NamedQubit
    from jaqalpaq.core.block import BlockStatement, LoopStatement
    from jaqalpaq.core.gate import GateStatement
    from jaqalpaq.core.macro import Macro

    return Constant, Parameter, AnnotatedValue, Register, NamedQubit, BlockStatement, LoopStatement, GateStatement, Macro


class X:
    def __init__(self, circuit, env=None):
        self.c = circuit
        self.env = env or {}
        self.counts = []
        (self.Constant, self.Parameter, self.AnnotatedValue, self.Register, self.NamedQubit, self.BlockStatement, self.LoopStatement, self.GateStatement, self.Macro) = _types()

    def num(self, v):
        if isinstance(v, bool):
            raise Unresolvable("bool")
        if type(v) in (int, float):
            return v
        # numpy scalars handed in through an override dictionary mean their value
        import numbers

        if isinstance(v, numbers.Integral):
            return int(v)
        if isinstance(v, numbers.Real):
            return float(v)
        if isinstance(v, (int, float)):
            return v
        raise Unresolvable("not a number: %r" % (type(v),))

    def val(self, v, bind):
        if isinstance(v, self.Constant):
            x = self.env.get(v.name, v.value)
            while isinstance(x, self.Constant):
                x = self.env.get(x.name, x.value)
            return ("n", self.num(x))
        if isinstance(v, self.Parameter):
            if v.name in bind:
                return bind[v.name]
            raise Unresolvable("unbound parameter %s" % v.name)
        if isinstance(v, self.NamedQubit):
            src = self.val(v.alias_from, bind)
            idx = self.val(v.alias_index, bind)
            return self.index(src, idx)
        if isinstance(v, self.Register):
            if v.alias_from is None:
                size = v._size if hasattr(v, "_size") else v.size
                sz = self.val(size, bind)
                if sz[0] != "n" or int(sz[1]) != sz[1]:
                    raise Unresolvable("register size")
                return ("r", v.name, tuple(range(int(sz[1]))))
            src = self.val(v.alias_from, bind)
            if src[0] != "r":
                raise Unresolvable("alias of non-register")
            sl = v.alias_slice
            if sl is None:
                return ("r", src[1], src[2])

            def g(x, d):
                if x is None:
                    return d
                y = self.val(x, bind)
                if y[0] != "n" or int(y[1]) != y[1]:
                    raise Unresolvable("slice bound")
                return int(y[1])

            start, stop, step = g(sl.start, 0), g(sl.stop, len(src[2])), g(sl.step, 1)
            if step <= 0:
                raise Unresolvable("slice step")
            return ("r", src[1], tuple(src[2][i] for i in range(start, stop, step) if 0 <= i < len(src[2])))
        if isinstance(v, bool):
            raise Unresolvable("bool")
        if isinstance(v, (int, float)):
            return ("n", v)
        raise Unresolvable("value of type %s" % type(v).__name__)

    def index(self, src, idx):
        if idx[0] == "p":
            if src[0] == "r":
                return ("q?", src[1], src[2], idx[1])
            raise Unresolvable("symbolic index of %r" % (src[0],))
        if idx[0] != "n" or int(idx[1]) != idx[1]:
            raise Unresolvable("index %r" % (idx,))
        i = int(idx[1])
        if src[0] == "p":
            return ("pi", src[1], i)
        if src[0] != "r":
            raise Unresolvable("indexing %r" % (src[0],))
        if not 0 <= i < len(src[2]):
            raise Unresolvable("index out of range")
        return ("q", src[1], src[2][i])

    @staticmethod
    def norm(x):
        if x[0] == "n":
            return ("n", float(x[1]))
        return x

    def stmt(self, s, bind, stack=()):
        if isinstance(s, self.GateStatement):
            gd = s.gate_def
            if isinstance(gd, self.Macro):
                if gd.name in stack:
                    raise Unresolvable("recursive macro")
                args = [self.val(a, bind) for a in s.parameters.values()]
                if len(args) != len(gd.parameters):
                    raise Unresolvable("macro arity")
                nb = {p.name: a for p, a in zip(gd.parameters, args)}
                return self.stmt(gd.body, nb, stack + (gd.name,))
            return ("g", s.name, tuple(self.norm(self.val(a, bind)) for a in s.parameters.values()))
        if isinstance(s, self.LoopStatement):
            n = self.val(s.iterations, bind)
            return ("loop", self.norm(n), self.stmt(s.statements, bind, stack))
        if isinstance(s, self.BlockStatement):
            items = [self.stmt(x, bind, stack) for x in s.statements]
            if s.subcircuit:
                self.counts.append(self.norm(self.val(s.iterations, bind)))
                return ("seq", [("g", "prepare_all", ())] + self.flat("seq", items) + [("g", "measure_all", ())])
            k = "par" if s.parallel else "seq"
            return (k, self.flat(k, items))
        raise Unresolvable("statement of type %s" % type(s).__name__)

    @staticmethod
    def flat(kind, items):
        if kind != "seq":
            return items
        out = []
        for it in items:
            if it[0] == "seq":
                out.extend(it[1])
            else:
                out.append(it)
        return out


def meaning(circuit, env=None, with_counts=False):
    x = X(circuit, env)
    t = x.stmt(circuit.body, {})
    if with_counts:
        return t, tuple(x.counts)
    return t


def definition_view(circuit, macro, env=None):
    """X of a macro body with its parameters symbolic."""
    x = X(circuit, env)
    bind = {p.name: ("p", p.name) for p in macro.parameters}
    try:
        return (tuple(p.name for p in macro.parameters), repr(x.stmt(macro.body, bind, (macro.name,))), tuple(x.counts))
    except Unresolvable as e:
        return (tuple(p.name for p in macro.parameters), "unresolvable")


def _raw(v):
    """Names for named things, numbers for numbers (header comparison)."""
    if v is None or isinstance(v, (int, float, str)):
        return v
    nm = getattr(v, "name", None)
    if nm is not None:
        return ("name", str(nm))
    return ("?", type(v).__name__)


def header_view(circuit, env=None, macros=True):
    consts = {str(k): _raw(getattr(v, "value", None)) for k, v in circuit.constants.items()}
    regs = {}
    for k, r in circuit.registers.items():
        if hasattr(r, "alias_index"):
            regs[str(k)] = ("qubit", _raw(r.alias_from), _raw(r.alias_index))
        elif r.alias_from is None:
            regs[str(k)] = ("fund", _raw(getattr(r, "_size", None)))
        else:
            sl = r.alias_slice
            regs[str(k)] = ("alias", _raw(r.alias_from), None if sl is None else (_raw(sl.start), _raw(sl.stop), _raw(sl.step)))
    out = {
        "constants": consts,
        "registers": regs,
        "native_gates": sorted(str(k) for k in circuit.native_gates),
        "usepulses": [str(getattr(u, "module", u)) for u in circuit.usepulses],
    }
    if macros:
        out["macros"] = {str(k): definition_view(circuit, m, env) for k, m in circuit.macros.items()}
    return out


def iter_blocks(circuit):
    from jaqalpaq.core.block import BlockStatement, LoopStatement

    def go(s):
        if isinstance(s, BlockStatement):
            yield s
            for x in s.statements:
                yield from go(x)
        elif isinstance(s, LoopStatement):
            yield from go(s.statements)

    yield from go(circuit.body)
    for m in circuit.macros.values():
        yield from go(m.body)


def iter_gates(circuit):
    from jaqalpaq.core.block import BlockStatement, LoopStatement
    from jaqalpaq.core.gate import GateStatement

    def go(s):
        if isinstance(s, GateStatement):
            yield s
        elif isinstance(s, BlockStatement):
            for x in s.statements:
                yield from go(x)
        elif isinstance(s, LoopStatement):
            yield from go(s.statements)

    yield from go(circuit.body)
    for m in circuit.macros.values():
        yield from go(m.body)
