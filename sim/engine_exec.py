"""E2 - execution simulator (C03, C08, C09, C15).

One run: a generated executable program (AST + override dictionary) is evaluated by the
reference machine under two seeded schedules, and pushed through the real
parser -> passes -> emulator -> result pipeline under the simulator-owned sampler, step
clock and hardware stub.  All oracles of the four properties are evaluated on every run;
a check reports the violations of its own property.
"""
import copy
import os

import numpy as np

from . import gateset as GS
from . import gen, progast, refmachine, seams
from .prng import H, Streams, hexdigest

TOL = 1e-9
PROPS = ("C03", "C08", "C09", "C15")


# ------------------------------------------------------------------------------ planning


def bias(cfg, prop, t):
    if prop == "C08":
        cfg["p_loop"] = t.choice([0.2, 0.35, 0.5])
        if 0 not in cfg["loop_counts"] and t.chance(0.7):
            cfg["loop_counts"] = sorted(set(cfg["loop_counts"]) | {0})
        cfg["p_weird_bracket"] = t.choice([0.0, 0.15, 0.3])
        cfg["p_par"] = t.choice([0.0, 0.1])
    elif prop == "C03":
        cfg["p_par"] = t.choice([0.15, 0.3, 0.45])
        cfg["p_maps"] = t.choice([0.4, 0.8, 1.0])
        cfg["n"] = t.weighted([(1, 0.5), (2, 2), (3, 3), (4, 3), (5, 1.5), (6, 1)])
        cfg["budget"] = t.randint(6, 25)
    elif prop == "C09":
        cfg["p_subblock"] = t.choice([0.6, 1.0])
        cfg["p_macros"] = t.choice([0.3, 0.9])
    elif prop == "C15":
        cfg["n"] = t.weighted([(1, 2), (2, 2), (3, 2), (4, 2)])
        cfg["p_loop"] = t.choice([0.2, 0.4])
    if prop in ("C15", "C08") and t.chance(0.05):
        # registers an outcome of which no longer fits one byte (few gates: the emulator
        # spends 2^n interpreted steps per gate)
        cfg["n"] = t.choice([8, 9, 9, 10])
        cfg["budget"] = min(cfg["budget"], 6)
        cfg["p_macros"] = 0.0
    return cfg


def plan_run(run_seed, prop):
    st = Streams(run_seed)
    ts = st.get("swarm")
    cfg = bias(gen.swarm(ts, "exec"), prop, ts)
    prog = ov = None
    for attempt in range(6):
        g = gen.Gen(st.get("program%d" % attempt), cfg)
        prog, ov = g.program()
        if prop != "C09" or progast.has_kind(prog, "sub"):
            break
    tp = st.get("pipeline")
    many = None
    if os.environ.get("VERIF_TIER_ACTIVE") == "thorough" and tp.chance(0.0006):
        # deeper bound, thorough tier only: one subcircuit visited 70 000 times (tallies
        # far beyond 16 bits), register of one or two qubits
        many = 70000
        nq = tp.choice([1, 2])
        prog = {"lets": [], "reg": ["q", nq], "maps": [], "pulses": None, "macros": [],
                "body": [{"k": "loop", "count": many, "body": {"k": "seq", "body": [
                    {"k": "gate", "name": "prepare_all", "args": []},
                    {"k": "gate", "name": "Rx", "args": [["item", "q", 0], ["num", 0.05]]},
                    {"k": "gate", "name": "measure_all", "args": []}]}}]}
        ov = {}
    # an integer-valued let that is only used as a numeric gate argument may be overridden
    # by a non-integral value (the resolver rejects the dictionary if the let is also an
    # index, a count or a size)
    for name, v in prog["lets"]:
        if isinstance(v, int) and tp.chance(0.25):
            trial = dict(ov or {})
            trial[name] = tp.choice(gen.FLOAT_VALUES)
            try:
                progast.resolve(prog, trial, executable=True)
                ov = trial
            except progast.Invalid:
                pass
    if ov and prog["macros"] and tp.chance(0.5):
        # overrides meet macros: prefer the orders that expand macros before lets
        plan_pipeline_hint = tp.choice(["expand_macro", "macro_first"])
    else:
        plan_pipeline_hint = None
    if plan_pipeline_hint is None and len(prog["maps"]) >= 2 and tp.chance(0.45):
        # alias chains meet alias fill-in: prefer the pipelines that run fill_in_map
        plan_pipeline_hint = tp.choice(["expand_let_map", "passes_first"])
    if tp.chance(0.3):
        # a pulse import in the header; never loaded (autoload_pulses=False), pure header data
        prog["pulses"] = tp.choice(["qscout.v1.std", ".local_pulses", "lab.gates"])
    plan = {
        "engine": "E2",
        "prop": prop,
        "run_seed": run_seed,
        "cfg": cfg,
        "prog": prog,
        "overrides": ov,
        "sampler_mode": tp.weighted([("faithful", 3), ("adversarial", 4), ("numpy", 2)]),
        "hw_encoding": tp.choice(["int", "str", "mixed"]),
        "pipeline": tp.choice(["plain", "expand_let", "expand_macro", "expand_let_map", "fill_let", "passes_first", "macro_first", "api_kwargs", "autoload", "run_string", "run_file"]),
        "bounding": tp.weighted([("native", 5), ("caller", 1), ("caller_copy", 1), ("names", 1), ("other_names", 0.7)]),
        "return_usepulses": tp.chance(0.25),
        "rerun": tp.chance(0.35),
        "gateset_style": tp.choice(["direct", "direct", "copied"]),
        "gateset_variant": tp.randrange(4),
        "disturb": tp.weighted([(None, 5), ("interrupt", 2), ("unitary_raises", 1.5), ("nested_run", 1.5)]),
        "disturb_at": tp.random(),
        "scan": tp.chance(0.4),
        "tapes": None,
    }
    if plan_pipeline_hint:
        plan["pipeline"] = plan_pipeline_hint
    plan["shared_backend"] = tp.chance(0.25)
    plan["gateset_stored"] = tp.chance(0.4)
    plan["header_first"] = tp.chance(0.15)
    plan["sibling"] = tp.chance(0.8)
    plan["pulse_pkg"] = tp.choice([0, 1]) if (plan["pipeline"] in ("autoload", "run_string", "run_file") and tp.chance(0.4)) else None
    plan["inject_shifted"] = tp.sample(sorted(k for k in GS.SIGS if GS.has_unitary(k) and "f" in GS.SIGS[k]), tp.randint(1, 3)) if (plan["pipeline"] == "autoload" and tp.chance(0.6)) else None
    if many:
        plan.update(many_shots=many, pipeline="plain", disturb=None, scan=False, rerun=False, sampler_mode="faithful")
    return plan


# ------------------------------------------------------------------------------ helpers


def permute_branches(prog, tape):
    """Another written order of every parallel block (the only handle on the emulator's
    serialisation of branches)."""
    p = copy.deepcopy(prog)
    changed = [False]

    def fix(s):
        k = s["k"]
        if k == "par":
            if len(s["body"]) > 1:
                before = [id(x) for x in s["body"]]
                tape.shuffle(s["body"])
                if [id(x) for x in s["body"]] != before:
                    changed[0] = True
        if k in ("seq", "par", "sub"):
            for x in s["body"]:
                fix(x)
        elif k == "loop":
            fix(s["body"])

    for m in p["macros"]:
        fix(m["body"])
    for s in p["body"]:
        fix(s)
    return p, changed[0]


_SHARED_BACKEND = []
_KEPT = []  # results of runs 1, 2 and 6 of this process, read again 1, 2, 4, 8, 16, 32 runs later
_RUNS_IN_PROCESS = [0]


def shared_backend():
    if not _SHARED_BACKEND:
        from jaqalpaq.emulator.unitary import UnitarySerializedEmulator

        _SHARED_BACKEND.append(UnitarySerializedEmulator())
    return _SHARED_BACKEND[0]


def budget_for(M, R, prog):
    n = R.n
    nodes = progast.count_nodes(prog) + 10
    static_gates = len(M.static_order) + 1
    visits = len(M.visits) + 1
    subs = len(M.psi) + 1
    # emulator: per static gate ~ 2^n * (20 + 2^k*15) lines; discover/serialise per
    # subcircuit ~ nodes*40; trace walk per visit ~ nodes*40; passes+parse ~ nodes*400
    est = static_gates * (2**n) * 160 + subs * nodes * 60 + visits * nodes * 60 + nodes * 600
    # measured on 400 clean runs: all operations of a run together use at most 4.6 x est
    return 10 * est + 100000


class V(list):
    """violation collector"""

    def add(self, prop, oracle, cls, where="", detail=""):
        if cls == "mismatch":
            # 'where' is part of a violation's identity only for escaped exceptions and
            # non-termination (innermost library function); for mismatches it is context
            where, detail = "", ("[%s] %s" % (where, detail) if where else detail)
        self.append({"prop": prop, "oracle": oracle, "cls": cls, "where": where, "detail": str(detail)[:300]})


def result_digest(res):
    out = []
    for sc in res.subcircuits:
        sv = getattr(sc, "state_vector", None)
        out.append(
            (
                sc.index,
                None if sv is None else [repr(complex(x)) for x in sv],
                [int(r.as_int) for r in sc.readouts],
            )
        )
    out.append([(int(r.as_int), r.index, r.subcircuit.index) for r in res.readouts])
    return hexdigest(out)


# ------------------------------------------------------------------------------ execution


def parse_with(plan, text, G, pipeline, scratch=None):
    from jaqalpaq.parser import parse_jaqal_string as _pjs

    def parse_jaqal_string(t, **kw):
        if plan.get("return_usepulses"):
            c, extra = _pjs(t, return_usepulses=True, **kw)
            if not isinstance(extra, dict) or "usepulses" not in extra:
                raise AssertionError("return_usepulses: second value is %r" % (extra,))
            return c
        return _pjs(t, **kw)

    if pipeline in ("autoload", "run_string", "run_file"):
        # the gate set comes from a pulse-definition module named by the program
        ov = dict(plan["overrides"]) if plan["overrides"] else None  # (a copy: the plan itself stays as planned)
        inj = None
        if pipeline == "autoload" and plan.get("inject_shifted"):
            # injected definitions (another convention) override the imported ones
            G1 = GS.build_gateset(shift=1)
            inj = {k: G1[k] for k in plan["inject_shifted"] if k in G1}
        return parse_jaqal_string(text, autoload_pulses=True, inject_pulses=inj, import_path=scratch, expand_let=bool(ov), override_dict=ov)
    from jaqalpaq.core.algorithm import expand_macros, fill_in_let, expand_subcircuits
    from jaqalpaq.core.algorithm.fill_in_map import fill_in_map

    ov = dict(plan["overrides"]) if plan["overrides"] else None  # (a copy: the plan itself stays as planned)
    kw = dict(inject_pulses=G, autoload_pulses=False)
    if pipeline == "plain" and not ov:
        return parse_jaqal_string(text, **kw)
    if pipeline in ("plain", "expand_let"):
        return parse_jaqal_string(text, expand_let=True, override_dict=ov, **kw)
    if pipeline == "expand_macro":
        return parse_jaqal_string(text, expand_macro=True, expand_let=bool(ov), override_dict=ov, **kw)
    if pipeline == "expand_let_map":
        return parse_jaqal_string(text, expand_let_map=True, override_dict=ov, **kw)
    if pipeline == "fill_let":
        return fill_in_let(parse_jaqal_string(text, **kw), override_dict=ov)
    if pipeline == "passes_first":
        c = parse_jaqal_string(text, **kw)
        return fill_in_map(expand_macros(fill_in_let(expand_subcircuits(c), override_dict=ov)))
    if pipeline == "macro_first":
        c = parse_jaqal_string(text, **kw)
        return fill_in_let(expand_subcircuits(expand_macros(c)), override_dict=ov)
    if pipeline == "api_kwargs":
        # the same circuit with every native gate statement re-created through the
        # object-oriented API, keyword arguments in another order
        c = parse_jaqal_string(text, expand_let=bool(ov), override_dict=ov, **kw)
        return rebuild_with_keyword_calls(c, plan["run_seed"])
    raise ValueError(pipeline)


def rebuild_with_keyword_calls(c, seed):
    from jaqalpaq.core.circuit import Circuit
    from jaqalpaq.core.block import BlockStatement, LoopStatement
    from jaqalpaq.core.gate import GateStatement
    from jaqalpaq.core.macro import Macro
    from .prng import Tape

    t = Tape(H(seed, "kwargs"))

    def go(s):
        if isinstance(s, GateStatement):
            if isinstance(s.gate_def, Macro) or not s.parameters:
                return s
            items = list(s.parameters.items())
            t.shuffle(items)
            return s.gate_def.call(**dict(items))
        if isinstance(s, LoopStatement):
            return LoopStatement(s.iterations, go(s.statements))
        if isinstance(s, BlockStatement):
            return BlockStatement(parallel=s.parallel, subcircuit=s.subcircuit, iterations=s.iterations, statements=[go(x) for x in s.statements])
        return s

    n = Circuit(native_gates=c.native_gates)
    n.constants.update(c.constants)
    n.registers.update(c.registers)
    for name, m in c.macros.items():
        n.macros[name] = Macro(m.name, m.parameters, go(m.body))
    n.usepulses.extend(c.usepulses)
    n.body.statements.extend(go(c.body).statements)
    return n


def _unreadable(viol, tag, e):
    """Reading a result the library returned raised: that is a verdict about the result,
    not a failure of the harness."""
    import traceback

    tb = traceback.extract_tb(e.__traceback__)
    inner = [f for f in tb if f.filename.startswith(seams.REPO_SRC)]
    where = ("%s@%s" % (inner[-1].name, os.path.basename(inner[-1].filename))) if inner else "reading the result"
    msg = "%s: reading the result raised %s: %s" % (tag, type(e).__name__, e)
    for prop in ("C03", "C08", "C15"):
        viol.add(prop, "result_readable", type(e).__name__, where, msg)


def check_result(viol, tag, res, M, R, sampler, mode):
    try:
        _check_result(viol, tag, res, M, R, sampler, mode)
    except (seams.StepBudgetExceeded, seams.SimInterrupt, refmachine.RefRace):
        raise
    except Exception as e:
        _unreadable(viol, tag, e)


def check_views(viol, tag, res, n, simulated, single_execution=True):
    try:
        _check_views(viol, tag, res, n, simulated, single_execution)
    except (seams.StepBudgetExceeded, seams.SimInterrupt):
        raise
    except Exception as e:
        _unreadable(viol, tag, e)


def _check_result(viol, tag, res, M, R, sampler, mode):
    """Oracles of C03 / C08 / C15 on one emulation result."""
    n = R.n
    visits = M.visits
    psi = M.psi
    probs = M.probabilities()
    # --- C08.3 number of subcircuits in flat order
    if len(res.subcircuits) != len(psi):
        viol.add("C08", "subcircuit_count", "mismatch", tag, "got %d want %d" % (len(res.subcircuits), len(psi)))
        # (C03 speaks of the state reported for each subcircuit: one that is not reported
        # at all, or a surplus one, has no correct state either)
        viol.add("C03", "state_vector", "mismatch", tag, "the emulator reports %d subcircuits, the program has %d" % (len(res.subcircuits), len(psi)))
        return
    for i, sc in enumerate(res.subcircuits):
        if sc.index != i:
            viol.add("C08", "subcircuit_index", "mismatch", tag, "position %d has index %r" % (i, sc.index))
    # --- C03 state vectors and probabilities
    for i, sc in enumerate(res.subcircuits):
        sv = np.asarray(sc.state_vector)
        if sv.shape != psi[i].shape or np.abs(sv - psi[i]).max() > TOL:
            viol.add("C03", "state_vector", "mismatch", tag, "subcircuit %d" % i)
            break
        p = np.asarray(sc.simulated_probability_by_int)
        if p.shape != probs[i].shape or np.abs(p - probs[i]).max() > TOL:
            viol.add("C03", "probabilities", "mismatch", tag, "subcircuit %d" % i)
            break
    # --- C08.2 visit sequence and readout indices
    got = [r.subcircuit.index for r in res.readouts]
    if got != visits:
        viol.add("C08", "visit_sequence", "mismatch", tag, "got %r want %r" % (got[:40], visits[:40]))
    if [r.index for r in res.readouts] != list(range(len(res.readouts))):
        viol.add("C08", "readout_index", "mismatch", tag)
    # --- C08.3 per-subcircuit readouts are the attributed subsequence (identity)
    for i, sc in enumerate(res.subcircuits):
        want = [r for r in res.readouts if r.subcircuit is sc]
        have = list(sc.readouts)
        if len(want) != len(have) or any(a is not b for a, b in zip(want, have)):
            viol.add("C08", "subcircuit_readouts", "mismatch", tag, "subcircuit %d" % i)
            break
    # --- C08.4 exactly one sampler call per visit with the visited distribution
    if sampler is not None:
        if len(sampler.calls) != len(visits):
            viol.add("C08", "sampler_calls", "mismatch", tag, "calls %d visits %d" % (len(sampler.calls), len(visits)))
        else:
            for j, (nn, pv, out) in enumerate(sampler.calls):
                i = visits[j]
                if nn != 2**n or pv is None or pv.shape != probs[i].shape or np.abs(pv - probs[i]).max() > TOL:
                    viol.add("C08", "sampler_distribution", "mismatch", tag, "call %d" % j)
                    break
                if j < len(res.readouts) and res.readouts[j].as_int != out:
                    viol.add("C08", "readout_value", "mismatch", tag, "call %d" % j)
                    break
                # --- C08.5 sampled outcome has non-zero probability
                if probs[i][out] <= 1e-12:
                    viol.add("C08", "zero_probability_outcome", "mismatch", tag, "call %d outcome %d" % (j, out))
                    break
    # --- C08.6 relative frequencies count exactly own readouts
    for i, sc in enumerate(res.subcircuits):
        rf = np.asarray(sc.relative_frequency_by_int)
        want = np.zeros(2**n)
        for j, v in enumerate(visits):
            if v == i and j < len(res.readouts):
                want[res.readouts[j].as_int] += 1
        if rf.shape != want.shape or np.abs(rf - want).max() > 0:
            viol.add("C08", "relative_frequency", "mismatch", tag, "subcircuit %d" % i)
            break
    check_views(viol, tag, res, n, simulated=True)


def _check_views(viol, tag, res, n, simulated, single_execution=True):
    """C15: normalised, mutually consistent little-endian views."""
    if single_execution and res.readouts is not None:
        # the recorded readouts of a subcircuit are the ones attributed to it
        for i, sc in enumerate(res.subcircuits):
            want = np.zeros(2**n)
            for r in res.readouts:
                if r.subcircuit is sc:
                    want[r.as_int] += 1
            rf = np.asarray(sc.relative_frequency_by_int)
            if rf.shape != want.shape or np.abs(rf - want).max() > 0:
                viol.add("C15", "relative_frequency_counts_attributed", "mismatch", tag, "subcircuit %d" % i)
                break
    if single_execution and res.readouts is not None:
        # every recorded readout is counted once: by the subcircuit it is attributed to
        total = sum(float(np.sum(np.asarray(sc.relative_frequency_by_int))) for sc in res.subcircuits)
        if total != len(res.readouts):
            viol.add("C15", "relative_frequency_total", "mismatch", tag, "the tallies of all subcircuits add up to %r, %d readouts were recorded" % (total, len(res.readouts)))
    keys = [format(k, "b").zfill(n)[::-1] for k in range(2**n)]
    # a caller may hold the string-keyed views of all subcircuits at once: each must keep
    # describing its own subcircuit while the others are requested
    held = []
    for sc in res.subcircuits:
        h = {"relative_frequency": sc.relative_frequency_by_str}
        if simulated:
            h["simulated_probability"] = sc.simulated_probability_by_str
            h["probability"] = sc.probability_by_str
        held.append(h)
    for i, sc in enumerate(res.subcircuits):
        for nm, by_str in held[i].items():
            by_int = list(getattr(sc, nm + "_by_int"))
            if list(by_str.keys()) == keys and any(not (a == b) for a, b in zip(by_str.values(), by_int)):
                viol.add("C15", nm + "_values", "mismatch", tag, "subcircuit %d: the string-keyed view obtained before the views of the other subcircuits were requested no longer matches the integer-indexed one" % i)
                break
    for i, sc in enumerate(res.subcircuits):
        views = [("relative_frequency", sc.relative_frequency_by_int, sc.relative_frequency_by_str)]
        if simulated:
            p = np.asarray(sc.simulated_probability_by_int)
            if p.shape != (2**n,) or (p < 0).any() or (p > 1).any() or abs(p.sum() - 1) > 1e-12:
                viol.add("C15", "normalisation", "mismatch", tag, "subcircuit %d sum %r" % (i, p.sum()))
            views.append(("simulated_probability", sc.simulated_probability_by_int, sc.simulated_probability_by_str))
            views.append(("probability", sc.probability_by_int, sc.probability_by_str))
        for nm, by_int, by_str in views:
            by_int = list(by_int)
            if len(by_int) != 2**n:
                viol.add("C15", nm + "_length", "mismatch", tag, "subcircuit %d" % i)
                continue
            ks = list(by_str.keys())
            if ks != keys:
                viol.add("C15", nm + "_keys", "mismatch", tag, "subcircuit %d keys %r" % (i, ks[:8]))
                continue
            vs = list(by_str.values())
            if any(not (a == b) for a, b in zip(vs, by_int)):
                viol.add("C15", nm + "_values", "mismatch", tag, "subcircuit %d" % i)
        if len(sc.measured_qubits) != n:
            viol.add("C15", "measured_qubits", "mismatch", tag)
    for r in res.readouts:
        s = r.as_str
        v = r.as_int
        if len(s) != n or any(s[i] != str((v >> i) & 1) for i in range(n)):
            viol.add("C15", "readout_str_int", "mismatch", tag, "as_int %r as_str %r" % (v, s))
            break
    # relative frequencies are the counts of the recorded readouts
    for i, sc in enumerate(res.subcircuits):
        want = np.zeros(2**n)
        for r in sc.readouts:
            want[r.as_int] += 1
        rf = np.asarray(sc.relative_frequency_by_int)
        if rf.shape != want.shape or np.abs(rf - want).max() > 0:
            viol.add("C15", "relative_frequency_counts", "mismatch", tag, "subcircuit %d" % i)
            break


def encode_outputs(vals, n, enc, tape):
    out = []
    for v in vals:
        e = enc
        if enc == "mixed":
            e = "int" if tape.chance(0.5) else "str"
        if e == "np":
            # integers as an instrument's driver hands them over: numpy integer scalars
            out.append(np.array([v], dtype=(np.uint8 if v < 256 and tape.chance(0.3) else np.int64))[0])
            continue
        out.append(v if e == "int" else format(v, "b").zfill(n)[::-1])
    return out


def execute(plan):
    """-> record dict (violations, probes, stats, digest, plan with consumed tapes)."""
    seams.install_repo()
    from jaqalpaq.run import run_jaqal_circuit
    from jaqalpaq.core.result import parse_jaqal_output_list
    from jaqalpaq.core.algorithm import expand_subcircuits
    from jaqalpaq.core import GateDefinition

    st = Streams(plan["run_seed"], recorded=plan.get("tapes"))
    GS.VARIANT = plan.get("gateset_variant", 0)
    GS.REF_SHIFT = {}
    if plan.get("pulse_pkg") and plan.get("pipeline") in ("autoload", "run_string", "run_file"):
        GS.REF_SHIFT = {k: plan["pulse_pkg"] for k in GS.SIGS}
    if plan.get("pipeline") == "autoload":
        GS.REF_SHIFT.update({k: 1 for k in (plan.get("inject_shifted") or [])})
    viol = V()
    probes = {}
    log = []
    harness = None
    prog, ov, cfg = plan["prog"], plan["overrides"], plan["cfg"]

    def probe(name, k=1):
        probes[name] = probes.get(name, 0) + k

    R = progast.resolve(prog, ov, executable=True)
    for f in R.features:
        probe("feat:" + f)
    if plan["pipeline"] == "expand_let_map" and R.features & {"register_macro_arg", "param_indexing", "param_hides_register"}:
        # fill_in_map is not applicable (JaqalError) while a macro is called with a
        # register/alias argument or a definition indexes with/into a parameter; use the
        # order that expands macros first
        plan = dict(plan)
        plan["pipeline"] = "passes_first"
        probe("pipeline_switched_not_applicable")
    M = refmachine.Machine(R)
    M.static_pass(st.get("schedA"))
    M.dynamic_pass(st.get("schedB"))  # RefRace propagates: harness error
    n = R.n
    probe("visits", len(M.visits))
    if any(c == 0 for c in _loop_counts(R.tree, True)):
        probe("zero_loop_around_bracket")
    if ov:
        probe("overrides")
        if any(v == 0 for v in ov.values()):
            probe("let_overridden_to_0")

    GS.restore_stored()
    G = GS.build_gateset(style=plan.get("gateset_style", "direct"), stored=bool(plan.get("gateset_stored")))
    clock = seams.StepClock()
    budget = budget_for(M, R, prog)
    scratch = modname = None
    if plan["pipeline"] in ("autoload", "run_string", "run_file"):
        import os, tempfile

        scratch = tempfile.mkdtemp(prefix="jaqsim-e2-")
        modname = "simgates_%x" % (plan["run_seed"] & 0xFFFFFFFF)
        if plan.get("pulse_pkg") is not None:
            # a gate *package* of the same name in every run's own import directory; its
            # jaqal_gates module takes the matrix convention from a helper submodule (what
            # an earlier program loaded under that name must not leak into this one)
            modname = "simgates_pkg"
            os.makedirs(os.path.join(scratch, modname))
            with open(os.path.join(scratch, modname, "__init__.py"), "w") as f:
                f.write("")
            with open(os.path.join(scratch, modname, "convention.py"), "w") as f:
                f.write("SHIFT = %d\n" % plan["pulse_pkg"])
            with open(os.path.join(scratch, modname, "jaqal_gates.py"), "w") as f:
                f.write("import sys\nif %r not in sys.path:\n    sys.path.append(%r)\nfrom sim import gateset as _gs\nfrom .convention import SHIFT\nALL_GATES = _gs.build_gateset(shift=SHIFT)\n" % (seams.VERIF_DIR, seams.VERIF_DIR))
            probe("pipeline_pulse_package")
        else:
          with open(os.path.join(scratch, modname + ".py"), "w") as f:
            f.write(GS.PULSE_MODULE_SOURCE.format(verif=seams.VERIF_DIR, modname=modname, pre="", post=""))
        prog = dict(prog, pulses="." + modname)
        probe("pipeline_pulse_module")
        budget += 200000

    texts = []
    lay = progast.Layout(st.get("layout"), cfg["layout_noise"])
    texts.append(("A", progast.render(prog, lay), prog))
    if "parallel_block" in R.features:
        p2, changed = permute_branches(prog, st.get("schedule"))
        if changed:
            probe("branch_order_permuted")
            texts.append(("A-perm", progast.render(p2, progast.Layout(st.get("layout2"), cfg["layout_noise"])), p2))
    has_sub = progast.has_kind(prog, "sub")
    if has_sub:
        pB = progast.spell_out_subcircuits(prog)
        texts.append(("B", progast.render(pB), pB))

    results = {}
    circuits = {}
    for tag, text, _ast in texts:
        pipeline = plan["pipeline"]
        if tag == "A":
            stape = st.get("sampler:AB")
        elif tag == "B":
            stape = st.clone("sampler:AB", "sampler:AB#B")  # identical random history
        else:
            stape = st.get("sampler:" + tag)
        sampler = seams.SimSampler(stape, plan["sampler_mode"])
        if plan["sampler_mode"] == "numpy":
            np.random.seed(H(plan["run_seed"], "numpy") % (2**32))
        old = seams.install_sampler(sampler)
        try:
            holder = {}

            def job():
                if plan.get("header_first"):
                    # a caller that looks at the header (register size, lets) before parsing
                    from jaqalpaq.parser.parser import parse_jaqal_string_header

                    parse_jaqal_string_header(text)
                c = parse_with(plan, text, G, pipeline, scratch)
                holder["c"] = c
                if pipeline == "run_string" and not ov:
                    from jaqalpaq.run import run_jaqal_string

                    return run_jaqal_string(text, import_path=scratch)
                if pipeline == "run_file" and not ov:
                    import os
                    from jaqalpaq.run import run_jaqal_file

                    path = os.path.join(scratch, "prog_%s.jaqal" % tag)
                    with open(path, "w", encoding="utf8", newline="") as f:
                        f.write(text)
                    return run_jaqal_file(path)
                if plan.get("shared_backend"):
                    # one backend object for the whole process (the documented `backend=`)
                    return run_jaqal_circuit(c, backend=shared_backend())
                return run_jaqal_circuit(c)

            o = seams.outcome_of(job, clock, budget)
        finally:
            seams.install_sampler(old)
        circuits[tag] = holder.get("c")
        entry = {"outcome": o, "sampler": sampler}
        results[tag] = entry
        if o["kind"] == "ok":
            log.append((tag, "ok", result_digest(o["value"])))
            check_result(viol, tag, o["value"], M, R, sampler, plan["sampler_mode"])
            if any(x[2] is not None and len(x[1]) and x[1].min() >= 0 and x[1][x[2]] < 0.01 for x in sampler.calls):
                probe("sampler_outcome_p<0.01")
        elif o["kind"] == "nonterm":
            log.append((tag, "nonterm", o["where"]))
            viol.add("C08", "termination", "nonterm", o["where"], "budget %d" % budget)
        else:
            log.append((tag, o["kind"], o["where"]))
            msg = "%s: %s" % (o["kind"], o["exc"])
            viol.add("C03", "valid_program_runs", o["kind"], o["where"], msg)
            viol.add("C08", "valid_program_runs", o["kind"], o["where"], msg)

    okA = results["A"]["outcome"]["kind"] == "ok"
    # --- C03: independence of history / sampler: emulate the same circuit object again
    if okA and plan["rerun"] and circuits.get("A") is not None:
        probe("rerun_same_object")
        s2 = seams.SimSampler(st.get("sampler:rerun"), "adversarial" if plan["sampler_mode"] != "adversarial" else "faithful")
        old = seams.install_sampler(s2)
        try:
            o2 = seams.outcome_of(lambda: run_jaqal_circuit(circuits["A"]), clock, budget)
        finally:
            seams.install_sampler(old)
        if o2["kind"] != "ok":
            viol.add("C03", "rerun", o2["kind"], o2.get("where", ""), str(o2.get("exc")))
        else:
            a, b = results["A"]["outcome"]["value"], o2["value"]
            same = len(a.subcircuits) == len(b.subcircuits) and all(
                np.array_equal(np.asarray(x.state_vector), np.asarray(y.state_vector)) for x, y in zip(a.subcircuits, b.subcircuits)
            )
            if not same:
                viol.add("C03", "rerun_state_identical", "mismatch", "A")
            log.append(("rerun", "ok", result_digest(b)))

    # --- a disturbed emulation of the same circuit object (cancelled at line event k, a gate
    # matrix that raises, or another emulation started from inside a gate matrix), then a
    # clean one: the clean one must again satisfy every oracle of C03 / C08 / C15
    if okA and plan.get("disturb") and circuits.get("A") is not None:
        cA = circuits["A"]
        kind = plan["disturb"]
        frac = plan.get("disturb_at", 0.5)

        class SimFault(Exception):
            pass

        sD = seams.SimSampler(st.get("sampler:disturbed"), "faithful")
        oldD = seams.install_sampler(sD)
        v0 = GS.VARIANT
        try:
            if kind != "nested_run":
                # the abandoned emulation runs under other gate definitions (same names and
                # arguments, other matrices) than the clean one that follows
                GS.VARIANT = (v0 + 1) % 4
            if kind == "interrupt":
                k = 1 + int(frac * max(results["A"]["outcome"].get("steps", 1000), 50))
                od = seams.outcome_of(lambda: run_jaqal_circuit(cA), clock, budget, inject_at=k)
            else:
                at = int(frac * (len(M.static_order) + 1))
                count = [0]

                def cb(name, argv):
                    count[0] += 1
                    if count[0] - 1 != at:
                        return
                    GS.CALLBACK = None
                    if kind == "unitary_raises":
                        raise SimFault(name)
                    other = circuits.get("B") or circuits.get("A-perm") or cA
                    sN = seams.SimSampler(st.get("sampler:nested"), "adversarial")
                    o_ = seams.install_sampler(sN)
                    GS.VARIANT = (v0 + 2) % 4  # the inner emulation uses other definitions
                    try:
                        run_jaqal_circuit(other)
                    finally:
                        GS.VARIANT = v0
                        seams.install_sampler(o_)

                GS.CALLBACK = cb
                od = seams.outcome_of(lambda: run_jaqal_circuit(cA), clock, 3 * budget)
                GS.CALLBACK = None
        finally:
            GS.CALLBACK = None
            GS.VARIANT = v0
            seams.install_sampler(oldD)
        fired = od["kind"] in ("interrupt", "exc:SimFault") or kind == "nested_run"
        if fired:
            probe("disturbed:" + kind)
        log.append(("disturb", kind, od["kind"]))
        if kind == "nested_run" and od["kind"] == "ok":
            check_result(viol, "outer run with a nested emulation", od["value"], M, R, sD, "faithful")
        sC = seams.SimSampler(st.get("sampler:after-disturbance"), "faithful")
        oldC = seams.install_sampler(sC)
        try:
            oc = seams.outcome_of(lambda: run_jaqal_circuit(cA), clock, budget)
        finally:
            seams.install_sampler(oldC)
        if oc["kind"] == "ok":
            check_result(viol, "clean run after %s" % kind, oc["value"], M, R, sC, "faithful")
            log.append(("after-disturb", result_digest(oc["value"])))
        elif oc["kind"] == "nonterm":
            viol.add("C08", "termination", "nonterm", oc["where"], "clean run after %s" % kind)
        else:
            msg = "clean run after %s: %s: %s" % (kind, oc["kind"], oc["exc"])
            viol.add("C03", "valid_program_runs", oc["kind"], oc["where"], msg)
            viol.add("C08", "valid_program_runs", oc["kind"], oc["where"], msg)
            log.append(("after-disturb", oc["kind"]))

    # --- C03: a scan of override dictionaries over ONE parsed circuit object
    if plan.get("scan") and prog["lets"] and scratch is None:
        from jaqalpaq.parser import parse_jaqal_string
        from jaqalpaq.core.algorithm import fill_in_let

        ts = st.get("scan")
        alts = []
        for _ in range(3):
            cand = {}
            for name, v in prog["lets"]:
                if ts.chance(0.6):
                    cand[name] = ts.choice(gen.INT_VALUES) if isinstance(v, int) else ts.choice(gen.FLOAT_VALUES)
            try:
                R2 = progast.resolve(plan["prog"], cand, executable=True)
            except progast.Invalid:
                continue
            alts.append((cand, R2))
        if alts:
            probe("override_scan")
            o0 = seams.outcome_of(lambda: parse_jaqal_string(texts[0][1], inject_pulses=G, autoload_pulses=False), clock, budget)
            if o0["kind"] == "ok":
                shared = o0["value"]
                for cand, R2 in [(ov or {}, R)] + alts:
                    M2 = refmachine.Machine(R2)
                    M2.static_pass(st.get("schedA2"))
                    M2.dynamic_pass(st.get("schedB2"))
                    s4 = seams.SimSampler(st.get("sampler:scan"), "faithful")
                    old4 = seams.install_sampler(s4)
                    try:
                        o4 = seams.outcome_of(lambda: run_jaqal_circuit(fill_in_let(shared, override_dict=dict(cand))), clock, budget_for(M2, R2, plan["prog"]))
                    finally:
                        seams.install_sampler(old4)
                    if o4["kind"] == "ok":
                        check_result(viol, "scan %r" % (cand,), o4["value"], M2, R2, s4, "faithful")
                        log.append(("scan", result_digest(o4["value"])))
                    elif o4["kind"] == "nonterm":
                        viol.add("C08", "termination", "nonterm", o4["where"], "override scan %r" % (cand,))
                    else:
                        msg = "override scan %r: %s: %s" % (cand, o4["kind"], o4["exc"])
                        viol.add("C03", "valid_program_runs", o4["kind"], o4["where"], msg)
                        viol.add("C08", "valid_program_runs", o4["kind"], o4["where"], msg)
                        log.append(("scan", o4["kind"]))

    # --- C03: the caller's ONE override dictionary object handed to two programs that declare
    # the same names: the second program's own let values apply wherever the dictionary
    # says nothing
    if plan.get("sibling") and ov and okA and scratch is None and any(nm not in ov for nm, _ in plan["prog"]["lets"]):
        from jaqalpaq.parser import parse_jaqal_string
        from jaqalpaq.core.algorithm import fill_in_let

        tb = st.get("sibling")
        prog2 = M2 = None
        for _ in range(8):
            cand2 = copy.deepcopy(plan["prog"])
            for item in cand2["lets"]:
                if item[0] not in ov and tb.chance(0.8):
                    item[1] = tb.choice(gen.INT_VALUES) if isinstance(item[1], int) else tb.choice(gen.FLOAT_VALUES)
            if cand2["lets"] == plan["prog"]["lets"]:
                continue
            try:
                # (valid as written, too: the library builds a program with its declared
                # values before any dictionary is applied)
                progast.resolve(cand2, None, executable=True)
                R2 = progast.resolve(cand2, ov, executable=True)
            except progast.Invalid:
                continue
            M2c = refmachine.Machine(R2)
            M2c.static_pass(st.get("schedA3"))
            M2c.dynamic_pass(st.get("schedB3"))
            # only a sibling that behaves differently says anything
            if M2c.visits == M.visits and len(M2c.psi) == len(M.psi) and all(a.shape == b.shape and np.abs(a - b).max() < 1e-9 for a, b in zip(M2c.psi, M.psi)):
                continue
            prog2, M2 = cand2, M2c
            break
        if prog2 is not None:
            probe("one_override_object_for_two_programs")
            text2 = progast.render(prog2, progast.Layout(st.get("layout:sibling"), cfg["layout_noise"]))
            D = dict(ov)  # the caller's one object
            via_pass = tb.chance(0.5)

            def with_D(txt):
                if via_pass:
                    return fill_in_let(parse_jaqal_string(txt, inject_pulses=G, autoload_pulses=False), override_dict=D)
                return parse_jaqal_string(txt, inject_pulses=G, autoload_pulses=False, expand_let=True, override_dict=D)

            s5 = seams.SimSampler(st.get("sampler:sibling"), "faithful")
            old5 = seams.install_sampler(s5)
            try:
                o5a = seams.outcome_of(lambda: run_jaqal_circuit(with_D(texts[0][1])), clock, budget)
                s5.calls.clear()
                o5 = seams.outcome_of(lambda: run_jaqal_circuit(with_D(text2)), clock, budget_for(M2, R2, prog2))
            finally:
                seams.install_sampler(old5)
            if o5["kind"] == "ok":
                check_result(viol, "second program, same override object %r" % (ov,), o5["value"], M2, R2, s5, "faithful")
                log.append(("sibling", result_digest(o5["value"])))
            elif o5["kind"] == "nonterm":
                viol.add("C08", "termination", "nonterm", o5["where"], "second program with the same override object")
            else:
                msg = "second program with the same override object %r: %s: %s" % (ov, o5["kind"], o5["exc"])
                viol.add("C03", "valid_program_runs", o5["kind"], o5["where"], msg)
                viol.add("C08", "valid_program_runs", o5["kind"], o5["where"], msg)
                log.append(("sibling", o5["kind"]))

    # --- the job API: execute the same job twice, reading the views in between (C15)
    if okA and circuits.get("A") is not None and plan.get("rerun") is not None and st.get("pipeline2").chance(0.3):
        from jaqalpaq.emulator.unitary import UnitarySerializedEmulator
        from jaqalpaq.core.algorithm import expand_macros, fill_in_let, expand_subcircuits

        probe("job_executed_twice")

        def job2():
            s3 = seams.SimSampler(st.get("sampler:job"), "adversarial")
            old3 = seams.install_sampler(s3)
            try:
                job = UnitarySerializedEmulator()(expand_macros(fill_in_let(expand_subcircuits(circuits["A"]))))
                abandon_first = plan.get("disturb_at", 0.5) < 0.5  # the abandoned execution is the job's very first one
                r1 = None
                if not abandon_first:
                    r1 = job.execute()
                    for sc in r1.subcircuits:  # read every view in between
                        list(sc.relative_frequency_by_int), dict(sc.relative_frequency_by_str), dict(sc.simulated_probability_by_str)
                if plan.get("disturb") and len(M.visits) >= 2:
                    # an execution abandoned after some shots, between the two complete ones
                    calls = [0]
                    stop_at = 1 + int(plan.get("disturb_at", 0.5) * (len(M.visits) - 1))

                    class Abandon(BaseException):
                        pass

                    def flaky(nn, p=None, **kw):
                        calls[0] += 1
                        if calls[0] == stop_at + 1:
                            raise Abandon()
                        return s3(nn, p=p, **kw)

                    seams.install_sampler(flaky)
                    try:
                        job.execute()
                    except Abandon:
                        probe("job_execution_abandoned")
                    finally:
                        seams.install_sampler(s3)
                if r1 is None:
                    r1 = job.execute()
                    for sc in r1.subcircuits:
                        list(sc.relative_frequency_by_int), dict(sc.relative_frequency_by_str), dict(sc.simulated_probability_by_str)
                r2 = job.execute()
                return r1, r2
            finally:
                seams.install_sampler(old3)

        oj = seams.outcome_of(job2, clock, 2 * budget)
        if oj["kind"] != "ok":
            viol.add("C15", "job_executed_twice", oj["kind"], oj.get("where", ""), str(oj.get("exc")))
        else:
            r1, r2 = oj["value"]
            check_views(viol, "job-2nd-execute", r2, n, simulated=True, single_execution=False)
            # ... and the result of the first complete execution, still held by the caller,
            # read again now: its views must still describe its own recorded readouts
            check_views(viol, "job-1st-result-held-across-2nd-execute", r1, n, simulated=True, single_execution=False)
            # C08 on the re-executed job: one readout per visit, in order, for this
            # execution too, and every subcircuit's tallies count exactly its own readouts
            for which_, rr_ in (("job-1st-complete-execute", r1), ("job-2nd-execute", r2)):
                seq2 = [r.subcircuit.index for r in rr_.readouts]
                if seq2 != list(M.visits):
                    viol.add("C08", "visit_sequence", "mismatch", which_, "got %r want %r" % (seq2[:20], list(M.visits)[:20]))
                    break
            for which_, rr_ in (("job-2nd-execute", r2), ("job-1st-result-held-across-2nd-execute", r1)):
              for i, sc in enumerate(rr_.subcircuits):
                want = np.zeros(2**n)
                for r in sc.readouts:
                    want[r.as_int] += 1
                rf = np.asarray(sc.relative_frequency_by_int)
                if rf.shape != want.shape or np.abs(rf - want).max() > 0:
                    viol.add("C08", "relative_frequency", "mismatch", which_, "subcircuit %d: tallies %r, its readouts count %r" % (i, rf.tolist()[:8], want.tolist()[:8]))
                    break
            log.append(("job2", hexdigest([[int(r.as_int) for r in sc.readouts] for sc in r2.subcircuits])))

    # --- written branch order must not matter (C03)
    if "A-perm" in results and okA:
        o2 = results["A-perm"]["outcome"]
        if o2["kind"] == "ok":
            pass  # already compared against the reference by check_result

    # --- hardware stub: parse_jaqal_output_list (C08.7, C15)
    hw = st.get("hardware")
    vals = [hw.randrange(2**n) for _ in M.visits]
    enc_lists = {
        "int": encode_outputs(vals, n, "int", hw),
        "str": encode_outputs(vals, n, "str", hw),
        "mixed": encode_outputs(vals, n, "mixed", hw),
        "np": encode_outputs(vals, n, "np", hw),
    }
    if n == 1:
        # one qubit: the outcome as a Python bool (True == 1 is an integer outcome)
        enc_lists["bool"] = [(np.bool_(v) if hw.chance(0.5) else bool(v)) for v in vals]  # (numpy's bool too)
    hist = {}
    # (without definitions an idle gate is a gate like any other and counts as using its
    # qubits, so a program that is valid because a parallel branch only idles is not)
    if st.get("hardware:anon").chance(0.4) and not plan.get("many_shots") and not ({"idle_gate", "parallel_block"} <= set(R.features)):
        # the usual setup on the hardware side: the text parsed without any pulse
        # definitions (every gate, the bounding ones included, is an anonymous gate)
        from jaqalpaq.parser import parse_jaqal_string as _pjs_anon

        textA = texts[0][1]
        oN = seams.outcome_of(lambda: _pjs_anon(textA, autoload_pulses=False, expand_let=bool(ov), override_dict=(dict(ov) if ov else None)), clock, budget)
        if oN["kind"] == "ok":
            circuits["N"] = oN["value"]
            probe("hardware_outputs_for_a_circuit_without_gate_definitions")
        else:
            msg = "parse without pulse definitions: %s: %s" % (oN["kind"], oN.get("exc"))
            viol.add("C08", "output_list_runs", oN["kind"], oN.get("where", ""), msg)
    for tag in [t for t in ("A", "B", "N") if t in circuits and circuits[t] is not None]:
        encs = (("int", "str", "mixed", "np") + (("bool",) if "bool" in enc_lists else ())) if tag == "A" else (plan["hw_encoding"],)
        if plan.get("many_shots"):
            encs = (plan["hw_encoding"],)
        for enc in encs:
            o = seams.outcome_of(lambda: parse_jaqal_output_list(circuits[tag], list(enc_lists[enc])), clock, budget)
            key = (tag, enc)
            if o["kind"] == "ok":
                res = o["value"]
                h = [(r.as_int, r.subcircuit.index) for r in res.readouts]
                hist[key] = h
                log.append(("hw", tag, enc, hexdigest(h)))
                if enc == plan["hw_encoding"] or tag in ("B", "N"):
                    want = list(zip(vals, M.visits))
                    if h != want:
                        viol.add("C08", "output_list_attribution", "mismatch", tag + ":" + enc, "got %r want %r" % (h[:20], want[:20]))
                    if len(res.subcircuits) != len(M.psi):
                        viol.add("C08", "output_list_subcircuits", "mismatch", tag + ":" + enc)
                    if [r.index for r in res.readouts] != list(range(len(res.readouts))):
                        viol.add("C08", "output_list_index", "mismatch", tag + ":" + enc)
                check_views(viol, "hw:" + tag + ":" + enc, res, n, simulated=False)
            elif o["kind"] == "nonterm":
                log.append(("hw", tag, enc, "nonterm"))
                viol.add("C08", "output_list_termination", "nonterm", o["where"])
            else:
                log.append(("hw", tag, enc, o["kind"], o["where"]))
                viol.add("C08", "output_list_runs", o["kind"], o["where"], "%s: %s" % (o["kind"], o["exc"]))
            hist.setdefault(key, None)
    # --- a history of short-lived circuits of different register sizes, each parsed against
    # hardware output and dropped at once (C15: each must be interpreted on its own terms)
    if hist.get(("A", plan["hw_encoding"])) is not None and scratch is None:
        from jaqalpaq.parser import parse_jaqal_string as _p

        def short_lived():
            out = []
            for rep in range(2):
                small = _p("register z[1]\nprepare_all\nmeasure_all\n", inject_pulses=G, autoload_pulses=False)
                r1 = parse_jaqal_output_list(small, [1])
                out.append(("small", [(x.as_int, x.as_str) for x in r1.readouts], [len(sc.relative_frequency_by_int) for sc in r1.subcircuits], [list(sc.relative_frequency_by_str) for sc in r1.subcircuits]))
                del small, r1
                big = parse_with(plan, texts[0][1], G, plan["pipeline"] if plan["pipeline"] not in ("autoload", "run_string", "run_file") else "plain")
                r2 = parse_jaqal_output_list(big, list(enc_lists[plan["hw_encoding"]]))
                out.append(("big", [(x.as_int, x.subcircuit.index) for x in r2.readouts], [len(sc.relative_frequency_by_int) for sc in r2.subcircuits]))
                del big, r2
            return out

        osl = seams.outcome_of(short_lived, clock, 6 * budget)
        if osl["kind"] != "ok":
            viol.add("C15", "hardware_short_lived_circuits", osl["kind"], osl.get("where", ""), str(osl.get("exc")))
        else:
            for item in osl["value"]:
                if item[0] == "small":
                    if item[1] != [(1, "1")] or item[2] != [2] or item[3] != [["0", "1"]]:
                        viol.add("C15", "hardware_short_lived_circuits", "mismatch", "", "one-qubit circuit read %r views %r" % (item[1], item[2]))
                        break
                else:
                    if item[1] != hist[("A", plan["hw_encoding"])] or any(x != 2**n for x in item[2]):
                        viol.add("C15", "hardware_short_lived_circuits", "mismatch", "", "the run's own circuit, freshly parsed and dropped")
                        break
            probe("short_lived_circuits")
    if all(hist.get(("A", e)) is not None for e in ("int", "str", "mixed")):
        probe("hw_three_encodings")
        if not (hist[("A", "int")] == hist[("A", "str")] == hist[("A", "mixed")]):
            viol.add("C15", "hardware_encodings_agree", "mismatch", "A")
        elif ("A", "np") in hist and hist[("A", "np")] != hist[("A", "int")]:
            viol.add("C15", "hardware_encodings_agree", "mismatch", "A", "numpy integer scalars are read differently from (or rejected, unlike) the equal Python integers")
        elif ("A", "bool") in hist and hist[("A", "bool")] != hist[("A", "int")]:
            viol.add("C15", "hardware_encodings_agree", "mismatch", "A", "True / False are read differently from (or rejected, unlike) the integers 1 / 0")

    # --- C09
    if has_sub and "B" in results:
        probe("c09_pair")
        oa, ob = results["A"]["outcome"], results["B"]["outcome"]
        if oa["kind"] != ob["kind"]:
            viol.add("C09", "spellings_same_outcome", "%s/%s" % (oa["kind"], ob["kind"]), oa.get("where") or ob.get("where") or "", "A: %s B: %s" % (oa.get("exc"), ob.get("exc")))
        elif oa["kind"] == "ok":
            if result_digest(oa["value"]) != result_digest(ob["value"]):
                viol.add("C09", "spellings_same_result", "mismatch", "run")
        ha, hb = hist.get(("A", plan["hw_encoding"])), hist.get(("B", plan["hw_encoding"]))
        if (ha is None) != (hb is None):
            viol.add("C09", "spellings_same_output_parse", "one_failed", "hw", "A ok: %s B ok: %s" % (ha is not None, hb is not None))
        elif ha is not None and ha != hb:
            viol.add("C09", "spellings_same_output_parse", "mismatch", "hw")
        # structural part: expand_subcircuits(A) vs B
        check_c09_structure(viol, plan, texts, G, clock, budget, probe)

    # --- the matrices a gate definition hands out as stored arrays are the user's: no
    # emulation may write into them (what a later emulation multiplies would change)
    changed_ = GS.stored_changed()
    if changed_:
        viol.add("C03", "gate_matrices_unchanged", "mismatch", ",".join(changed_), "the stored matrix returned by the definition of %s was modified in place" % ", ".join(changed_))
        GS.restore_stored()
    elif plan.get("gateset_stored"):
        probe("gate_definitions_return_stored_arrays")

    # --- a result returned earlier in this process keeps describing what it described then,
    # whatever has been processed since (at most two results are kept per process)
    def views_of(res_):
        out = []
        for sc in res_.subcircuits:
            out.append((sc.index, [float(x) for x in sc.relative_frequency_by_int], [int(r.as_int) for r in sc.readouts], [round(float(x), 12) for x in sc.simulated_probability_by_int]))
        out.append([(int(r.as_int), r.subcircuit.index) for r in res_.readouts])
        return out

    _RUNS_IN_PROCESS[0] += 1
    for kept in _KEPT:
        kept["age"] += 1
        if kept["age"] & (kept["age"] - 1):
            # read again after 1, 2, 4, 8, 16, 32 later runs only: reading is a use, and a
            # result that is used all the time is never the least recently used anything
            continue
        try:
            now = views_of(kept["res"])
        except Exception as e_:  # noqa
            now = "reading raised %s" % type(e_).__name__
        if now != kept["views"]:
            for prop_ in ("C08", "C15"):
                viol.add(prop_, "earlier_result_unchanged_by_later_runs", "mismatch", "", "a result returned %d runs ago reads differently now" % kept["age"])
            kept["views"] = now
        probe("earlier_result_read_again")
    if okA and len(_KEPT) < 3 and _RUNS_IN_PROCESS[0] in (1, 2, 6):
        try:
            _KEPT.append({"res": results["A"]["outcome"]["value"], "views": views_of(results["A"]["outcome"]["value"]), "age": 0})
        except Exception:
            pass

    GS.REF_SHIFT = {}
    if scratch:
        import shutil, sys

        shutil.rmtree(scratch, ignore_errors=True)
        if plan.get("pulse_pkg") is None:
            sys.modules.pop(modname, None)
        # (the package stays loaded, as it would in a user's process: the next program that
        # names it from another directory must get its own)
    digest = hexdigest(log)
    plan = dict(plan)
    plan["tapes"] = st.dump()
    rec = {
        "violations": list(viol),
        "probes": probes,
        "digest": digest,
        "steps": clock.total,
        "ticks": M.ticks,
        "interleaving": hexdigest(M.dynamic_order) if "parallel_block" in R.features else None,
        "nontrivial": bool(R.features & {"loop", "parallel_block", "macro_call"}),
        "log": log,
        "plan": plan,
        "text": texts[0][1],
    }
    return rec


def _loop_counts(node, only_pm):
    k = node[0]
    if k in ("seq", "par"):
        for x in node[1]:
            yield from _loop_counts(x, only_pm)
    elif k == "loop":
        if not only_pm or refmachine.contains_pm(node[2]):
            yield node[1]
        yield from _loop_counts(node[2], only_pm)


def _shape(s):
    """Exact nesting of a library statement, read attribute by attribute (no library
    constructor is involved in computing it)."""
    from jaqalpaq.core.block import BlockStatement, LoopStatement
    from jaqalpaq.core.gate import GateStatement

    def val(v):
        return str(getattr(v, "name", None) or (repr(v) if not hasattr(v, "alias_from") else getattr(v, "name", "?")))

    if isinstance(s, LoopStatement):
        return ("loop", val(s.iterations), _shape(s.statements))
    if isinstance(s, BlockStatement):
        return ("block", bool(s.parallel), bool(s.subcircuit), None if s.iterations is None else val(s.iterations), tuple(_shape(x) for x in s.statements))
    if isinstance(s, GateStatement):
        return ("gate", s.name, tuple(val(v) for v in s.parameters.values()))
    return ("other", type(s).__name__)


def _expanded_shape(t, pname, mname):
    """What C09 promises for a shape: each subcircuit block becomes a sequential block that
    begins with the prepare gate and ends with the measure gate; everything else as it is."""
    if t[0] == "loop":
        return ("loop", t[1], _expanded_shape(t[2], pname, mname))
    if t[0] == "block":
        kids = tuple(_expanded_shape(x, pname, mname) for x in t[4])
        if t[2]:
            return ("block", False, False, "*", (("gate", pname, ()),) + kids + (("gate", mname, ()),))
        return ("block", t[1], False, t[3], kids)
    return t


def _same_shape(a, b):
    """Equality of shapes; "*" (the count of an expanded subcircuit) matches anything."""
    if a == "*" or b == "*":
        return True
    if isinstance(a, tuple) and isinstance(b, tuple):
        return len(a) == len(b) and all(_same_shape(x, y) for x, y in zip(a, b))
    return a == b


def check_c09_structure(viol, plan, texts, G, clock, budget, probe):
    """expand_subcircuits(A) means B: compared through the independent meaning extractor,
    no subcircuit block left, header data unchanged, bounding gates are the native (or the
    caller's) definitions."""
    from jaqalpaq.parser import parse_jaqal_string
    from jaqalpaq.core.algorithm import expand_subcircuits
    from jaqalpaq.core import GateDefinition
    from . import extract

    tA = [t for t in texts if t[0] == "A"][0][1]
    tB = [t for t in texts if t[0] == "B"][0][1]
    before = {}
    has_kind_sub_before = [False]
    kw = dict(inject_pulses=G, autoload_pulses=False)  # a usepulses line stays pure header data here
    caller = plan["bounding"] == "caller"

    def job():
        cA = parse_jaqal_string(tA, **kw)
        cB = parse_jaqal_string(tB, **kw)
        has_kind_sub_before[0] = has_kind_sub(cA)
        before["hdr"] = extract.header_view(cA, macros=False)  # before: dicts may be shared
        before["gates"] = [(k, id(v)) for k, v in cA.native_gates.items()]
        if caller:
            pd, md = GateDefinition("prepare_all"), GateDefinition("measure_all")
            eA = expand_subcircuits(cA, prepare_def=pd, measure_def=md)
        elif plan["bounding"] == "caller_copy":
            # the caller's definitions are renamed copies of the native ones, taken after
            # the native ones have been used (the parser calls them for explicit brackets)
            G["prepare_all"](), G["measure_all"]()
            pd, md = G["prepare_all"].copy(name="prepare_fast"), G["measure_all"].copy(name="measure_fast")
            eA = expand_subcircuits(cA, prepare_def=pd, measure_def=md)
        elif plan["bounding"] == "names":
            # definitions named by strings that the native table knows
            pd, md = G["prepare_all"], G["measure_all"]
            eA = expand_subcircuits(cA, prepare_def="prepare_all", measure_def="measure_all")
        elif plan["bounding"] == "other_names":
            # strings the native table does not know: fresh definitions of those names
            pd = md = None
            eA = expand_subcircuits(cA, prepare_def="prepare_z", measure_def="measure_z")
        else:
            pd, md = G["prepare_all"], G["measure_all"]
            eA = expand_subcircuits(cA)
        return cA, cB, eA, pd, md

    o = seams.outcome_of(job, clock, budget)
    if o["kind"] != "ok":
        viol.add("C09", "expand_subcircuits_runs", o["kind"], o.get("where", ""), str(o.get("exc")))
        return
    cA, cB, eA, pd, md = o["value"]
    try:
        mE, mB = extract.meaning(eA), extract.meaning(cB)
    except extract.Unresolvable as e:
        probe("c09_structure_unresolvable")
        return
    if plan["bounding"] == "caller_copy":
        own = any(g.name in GS.BUSY for g in extract.iter_gates(cA))
        names = {g.name for g in extract.iter_gates(eA)}
        if has_kind_sub(cA) and not ({"prepare_fast", "measure_fast"} <= names):
            viol.add("C09", "bounding_gate_definition", "mismatch", "caller_copy", "the caller's renamed copies were not used: gate names %r" % sorted(n_ for n_ in names if "prepare" in n_ or "measure" in n_))
        for g in extract.iter_gates(eA):
            if g.name == "prepare_fast" and g.gate_def is not pd or g.name == "measure_fast" and g.gate_def is not md:
                viol.add("C09", "bounding_gate_definition", "mismatch", "caller_copy", "statement not bound to the caller's definition")
                break
        probe("c09_caller_copy")
        pd = None
    elif plan["bounding"] == "other_names":
        # same shape as B with the bounding gates renamed
        def ren(t):
            if isinstance(t, tuple) and t and t[0] == "g":
                return ("g", {"prepare_all": "prepare_z", "measure_all": "measure_z"}.get(t[1], t[1]), t[2])
            if isinstance(t, tuple):
                return tuple(ren(x) for x in t)
            if isinstance(t, list):
                return [ren(x) for x in t]
            return t

        # explicit prepare_all / measure_all already in A keep their names; only compare
        # when A has none of its own
        own = any(g.name in GS.BUSY for g in extract.iter_gates(cA))
        if not own and mE != ren(mB):
            viol.add("C09", "expanded_meaning_equals_spelled_out", "mismatch", "expand_subcircuits", "string-named bounding gates")
        for g in extract.iter_gates(eA):
            if g.name in ("prepare_z", "measure_z") and (type(g.gate_def).__name__ != "GateDefinition" or g.gate_def.parameters):
                viol.add("C09", "bounding_gate_fresh_definition", "mismatch", g.name)
                break
        probe("c09_string_named_bounding_gates")
    elif mE != mB:
        viol.add("C09", "expanded_meaning_equals_spelled_out", "mismatch", "expand_subcircuits")
    # exact nesting: every statement other than a subcircuit block stays where it is
    pn, mn = {"caller_copy": ("prepare_fast", "measure_fast"), "other_names": ("prepare_z", "measure_z")}.get(plan["bounding"], ("prepare_all", "measure_all"))
    try:
        want_shape = _expanded_shape(_shape(cA.body), pn, mn)
        got_shape = _shape(eA.body)
        if not _same_shape(want_shape, got_shape):
            viol.add("C09", "nesting_unchanged", "mismatch", "expand_subcircuits", "body: expected %r got %r" % (want_shape, got_shape))
        else:
            for name, m in cA.macros.items():
                if name in eA.macros and not _same_shape(_expanded_shape(_shape(m.body), pn, mn), _shape(eA.macros[name].body)):
                    viol.add("C09", "nesting_unchanged", "mismatch", "expand_subcircuits", "macro %s: expected %r got %r" % (name, _expanded_shape(_shape(m.body), pn, mn), _shape(eA.macros[name].body)))
                    break
        probe("c09_exact_nesting_compared")
    except RecursionError:
        pass
    left = [b for b in extract.iter_blocks(eA) if getattr(b, "subcircuit", False)]
    if left:
        viol.add("C09", "no_subcircuit_left", "mismatch", "expand_subcircuits", "%d left" % len(left))
    hdr_a, hdr_e = before["hdr"], extract.header_view(eA, macros=False)
    if [(k, id(v)) for k, v in cA.native_gates.items()] != before["gates"]:
        viol.add("C09", "header_unchanged", "mismatch", "expand_subcircuits", "the native gate table of the input changed")
    if hdr_a != hdr_e:
        viol.add("C09", "header_unchanged", "mismatch", "expand_subcircuits", "%r vs %r" % (hdr_a, hdr_e))
    if list(cA.macros) != list(eA.macros):
        viol.add("C09", "macros_kept", "mismatch", "expand_subcircuits")
    elif plan["bounding"] not in ("other_names", "caller_copy"):
        for name in cB.macros:
            if name in eA.macros and extract.definition_view(eA, eA.macros[name]) != extract.definition_view(cB, cB.macros[name]):
                viol.add("C09", "macro_definition_meaning", "mismatch", "expand_subcircuits", name)
                break
    for g in extract.iter_gates(eA) if pd is not None else ():
        if g.name == "prepare_all" and g.gate_def is not pd and not _in_source(g, cA):
            viol.add("C09", "bounding_gate_definition", "mismatch", "prepare")
            break
        if g.name == "measure_all" and g.gate_def is not md and not _in_source(g, cA):
            viol.add("C09", "bounding_gate_definition", "mismatch", "measure")
            break
    # the same circuit object expanded once more, now with bounding gates named by strings the
    # table does not know: the first expansion must not have touched its input
    if has_kind_sub_before[0]:
        o3 = seams.outcome_of(lambda: expand_subcircuits(cA, prepare_def="prepare_z", measure_def="measure_z"), clock, budget)
        if o3["kind"] == "ok":
            names3 = {g.name for g in extract.iter_gates(o3["value"])}
            if not ({"prepare_z", "measure_z"} <= names3):
                viol.add("C09", "second_expansion_of_the_same_object", "mismatch", "", "a second expansion with other bounding gates found nothing to expand")
        elif o3["kind"] != "JaqalError":
            viol.add("C09", "expand_subcircuits_runs", o3["kind"], o3.get("where", ""), "second expansion: %s" % o3.get("exc"))
        probe("c09_second_expansion")
    probe("c09_structure")
    # a gate table without prepare_all / measure_all: the bounding gates must be fresh plain
    # definitions of exactly those names, not objects that belong to another circuit
    from jaqalpaq.core.gatedef import GateDefinition as _GD

    G2 = {k: v for k, v in G.items() if k not in GS.BUSY}

    def job2():
        c2 = parse_jaqal_string(tA, inject_pulses=G2, autoload_pulses=False)
        before["hdr2"] = extract.header_view(c2, macros=False)
        return c2, expand_subcircuits(c2)

    o2 = seams.outcome_of(job2, clock, budget)
    if o2["kind"] == "ok":
        c2, e2 = o2["value"]
        for g in extract.iter_gates(e2):
            if g.name in GS.BUSY and not _in_source(g, c2):
                gd = g.gate_def
                if type(gd) is not _GD or gd.parameters or any(gd is x for x in G.values()):
                    viol.add("C09", "bounding_gate_fresh_definition", "mismatch", g.name, "type %s" % type(gd).__name__)
                    break
        if extract.header_view(e2, macros=False) != before["hdr2"] or extract.header_view(c2, macros=False) != before["hdr2"]:
            viol.add("C09", "header_unchanged", "mismatch", "expand_subcircuits", "gate table without bounding gates: header data changed")
        probe("c09_no_native_bounding_gates")
    elif o2["kind"] not in ("JaqalError",):
        viol.add("C09", "expand_subcircuits_runs", o2["kind"], o2.get("where", ""), "gate table without bounding gates: %s" % o2.get("exc"))


def has_kind_sub(circuit):
    from . import extract

    return any(getattr(b, "subcircuit", False) for b in extract.iter_blocks(circuit))


def _in_source(g, circuit):
    from . import extract

    return any(g is h for h in extract.iter_gates(circuit))


# ------------------------------------------------------------------------------ shrinking


def candidates(plan):
    """Smaller / simpler plans, each a valid replay file."""
    from .shrink import ast_candidates

    def variant(**kw):
        p = copy.deepcopy(plan)
        p.update(kw)
        p["tapes"] = None
        return p

    if plan["cfg"].get("layout_noise"):
        c = copy.deepcopy(plan["cfg"])
        c["layout_noise"] = 0.0
        yield variant(cfg=c)
    if plan["rerun"]:
        yield variant(rerun=False)
    if plan["pipeline"] != "plain":
        yield variant(pipeline="plain")
    if plan["prog"].get("pulses"):
        p0 = copy.deepcopy(plan["prog"])
        p0["pulses"] = None
        yield variant(prog=p0)
    if plan["sampler_mode"] != "faithful":
        yield variant(sampler_mode="faithful")
    if plan["bounding"] != "native":
        yield variant(bounding="native")
    if plan.get("scan"):
        yield variant(scan=False)
    if plan.get("shared_backend"):
        yield variant(shared_backend=False)
    if plan.get("inject_shifted"):
        yield variant(inject_shifted=None)
    if plan.get("disturb"):
        yield variant(disturb=None)
    if plan.get("gateset_variant"):
        yield variant(gateset_variant=0)
    if plan.get("gateset_style", "direct") != "direct":
        yield variant(gateset_style="direct")
    for k in list(plan["overrides"] or {}):
        ov = dict(plan["overrides"])
        del ov[k]
        yield variant(overrides=ov)
    for prog in ast_candidates(plan["prog"]):
        ov = {k: v for k, v in (plan["overrides"] or {}).items() if any(k == nm for nm, _ in prog["lets"])}
        try:
            progast.resolve(prog, ov, executable=True)
        except progast.Invalid:
            continue
        yield variant(prog=prog, overrides=ov)


# ------------------------------------------------------------------------------ evidence

RULE = {
    "*": (
        "One evaluation = one simulated execution: a swarm-configured, seeded executable Jaqal program (AST + let-override "
        "dictionary) evaluated by the reference Jaqal machine under two seeded gate-granularity schedules of its parallel branches, "
        "and run through the real parser/passes/emulator/result pipeline (up to three renderings: layout-noised, permuted written "
        "branch order, subcircuits spelled out) under the simulator-owned sampler, the step clock and the hardware stub. "
        "Distinct = distinct event-log digest (outcome classes and result digests of every pipeline step); non-trivial = the "
        "program executes at least one loop, parallel block or macro call."
    )
}
ASSUMPTIONS = [
    "the reference machine R2, the resolver R1 and the meaning extractor X are trusted (cross-checked against each other: two schedules per run, twin renderings)",
    "gate matrices are shared between emulator and reference: the property is how U_j is applied, not what U_j is",
    "bounds: n<=4 qubits, <=25 generated statements, nesting<=5, loop counts<=3, a bracket's prepare and measure share their chain of enclosing loops",
    "sampling, not enumeration: a clean batch is evidence over the seeds run",
    "the step clock sees Python line events only; a hang inside C code would surface as a wall-clock kill (exit 2), not as a verdict",
]
EXPECTED_PROBES = {
    "C03": ["feat:parallel_block", "branch_order_permuted", "feat:alias_chain_depth>=2", "feat:macro_call", "overrides", "rerun_same_object", "override_scan", "disturbed:interrupt", "disturbed:unitary_raises", "disturbed:nested_run", "feat:idle_gate", "feat:gate_without_unitary", "feat:let_sized_register", "feat:strided_slice"],
    "C08": ["disturbed:interrupt", "disturbed:nested_run", "zero_loop_around_bracket", "feat:zero_loop", "feat:loop_count_by_name", "let_overridden_to_0", "feat:repeated_prepare", "feat:trailing_prepare", "feat:macro_call", "hw_three_encodings", "feat:subcircuit_block"],
    "C09": ["c09_pair", "c09_structure", "feat:macro_call", "feat:loop"],
    "C15": ["hw_three_encodings", "sampler_outcome_p<0.01", "visits", "job_executed_twice"],
}


def sample_view(r):
    p = r["plan"]
    return {
        "run_seed": r["seed"],
        "program": r.get("text"),
        "overrides": p["overrides"],
        "pipeline": p["pipeline"],
        "sampler_mode": p["sampler_mode"],
        "hw_encoding": p["hw_encoding"],
        "event_log": r.get("log"),
        "violations": r.get("violations"),
    }



def describe(plan):
    return "overrides: %r   pipeline: %s   sampler: %s   hardware encoding: %s   bounding gates: %s" % (plan["overrides"], plan["pipeline"], plan["sampler_mode"], plan["hw_encoding"], plan["bounding"])
